"""C03 - A Stream behaves as a lazy sequence under any history of its methods.

A case is a history: ``init`` (1-3 stream / hub specs) + ``steps`` (plain-data
operations, every "pick a live object" is an index modulo the pool size) +
``inv`` (compare every live object with the model after each step, or only at
the end) + ``drain`` (the order/chunking in which the survivors are consumed
at the end).  The history is interpreted against (real object, list model).
"""
import os
import sys
import math
import array
import pickle
from collections import deque
from fractions import Fraction
from hypothesis import strategies as st
from vlib.core import Clause, Enumerated, Violation
from vlib.sources import Src

from audiolazy import Stream, thub
from audiolazy import lazy_itertools as lit

ID = "C03"
RULE = ("cases = histories (initial pool of 1-3 finite / generator-backed / periodic / "
        "constant / bounded-endless streams or thubs - also built from a str, bytes, bytearray, array, range, dict, "
        "dict view, deque, frozenset or a plain re-iterable object; items include 0.0, -0.0, nan and periods of "
        "items that are equal without being the same (signed zeros, 1 / True / 1.0) - then <=12 (quick) / <=40 (thorough) "
        "steps take peek skip limit append map filter copy tee thub use next for list "
        "(counts: None, ints, floats incl. halves and floats 1-3 ulps from a half / an integer, +-inf, nan, ints and "
        "floats at and beyond sys.maxsize), "
        "then a generated drain schedule) drawn by Hypothesis; long histories (the same 1-2 in-place stages, "
        "with or without a small read in between, repeated 2600-4000 (thorough -6000) times on one stream that may "
        "have copies or be a thub use, then read); every list returned by take/peek is written to in place by the "
        "caller right after it was compared (later results must not show it); thubs also start out advanced by the "
        "documented Stream.take(hub, n); plus an exhaustive grid of "
        "(source kind, length, [filter/map stage,] consumed prefix, method, count); plus every history of <= 3 steps "
        "(4 around reads) from 20 single steps on one stream object with no peek of the harness in between; oracle = immutable list "
        "model (finite prefix + optional cycle) evaluated step by step: every return "
        "value, every exception, and the next <=8 items of every live object, items compared exactly (type, sign of "
        "zero, nan for nan); "
        "non-trivial = a consuming step on an object that has live copies / tee siblings "
        "/ unused hub uses, or a count beyond the remaining length, or an (n+1)-th hub "
        "use; distinct = distinct case hash")
ASSUMPTIONS = [
  "map/filter functions are pure and total (chosen by name from FUNCS / PREDS)",
  "filter is applied to an endless stream only when some element of its cycle passes",
  "skip/limit counts are ints or floats that are not exact halves (rounding mode of halves is unspecified), the representable neighbours of halves included; take/peek floats include exact halves (documented by rint: nearest integer, half away from zero) and their neighbours; expected counts are computed on the exact rational value of the float",
  "take/peek(inf) and list() only on streams whose model is finite; the same for take/peek/skip counts of 10**9 and more (no read of an endless stream is asked to go that far); limit(10**9 or more) leaves an endless model as it is",
  "an item is 'the same' when it is the identical object or has the same type and value, floats with the same sign of zero, nan matching only nan, tuples item by item",
  "a str / bytes / dict / range / ... is an iterable like any other: Stream(x), thub(x, n) and append(x) go through its items (collections.abc.Iterable, as the anchored code tests)",
  "a stream handed to append/tee/thub/Stream() is dead afterwards (documented) and is not used again",
  "'use' of a thub = anything that calls iter() on it: Stream(hub), iter(hub), tee(hub), thub(hub), append(hub), hub.skip/limit/append/map/filter; hub.peek/hub.copy use none but need one to be left",
  "skip/limit/append/map/filter on a Stream are in-place (return self), as the anchored code documents",
  "a container returned by take/peek belongs to the caller: it is a fresh value, so writing to it changes no later result (the list model is immutable)",
  "history length is bounded by the check's budget only: thousands of stacked stages are a legal history (depths stay 4x below where CPython's C stack ends for nested itertools objects)",
  "Stream.take(hub, n) is used only as documented in StreamTeeHub.take: on a thub nothing was read or peeked from yet; it removes the first n items for every use",
  "what a stream does after a map/filter function raised for an element is not judged: the list model gives a partial function no value, and the unchanged code is not uniform there (a later skip/limit stage ends the stream, a peek or a copy swallows the failing position)",
  "harness safety, not oracle: endless content mostly comes from a pull-bounded source (OverRead past 32768 pulls); on streams backed by itertools.cycle/repeat a filter that passes every cycle element is skipped, and the process address space is capped so that eager consumption of an endless stream ends in MemoryError (a violation) instead of exhausting the machine",
]



def _quiet_hub_del(unraisable, _prev=sys.unraisablehook):
  """thub(spent hub, n) fails inside StreamTeeHub.__init__ (the expected
  IndexError); the half-built object's __del__ then recurses through
  Stream.__getattr__ and CPython prints 'Exception ignored'.  That noise is
  not part of the property; everything else still reaches the default hook."""
  if getattr(unraisable.object, "__qualname__", "") == "StreamTeeHub.__del__":
    return
  _prev(unraisable)


sys.unraisablehook = _quiet_hub_del


def _cap_memory(extra=640 << 20):
  """Safety net, not an oracle: Stream(a, b, c) / Stream(x) are endless C-level
  iterators (itertools.cycle / repeat).  If the code under test ever consumes
  one eagerly (say take(-inf) treated as take(inf)) the process would eat all
  memory and the OOM killer would take pool workers away (the run then never
  returns).  With an address-space cap the same fault surfaces within a
  second as a MemoryError inside run_case, i.e. as an ordinary violation."""
  try:
    import resource
    with open("/proc/self/statm") as f:
      cur = int(f.read().split()[0]) * resource.getpagesize()
    soft, hard = resource.getrlimit(resource.RLIMIT_AS)
    want = cur + extra
    if hard != resource.RLIM_INFINITY:
      want = min(want, hard)
    if soft == resource.RLIM_INFINITY or soft > want:
      resource.setrlimit(resource.RLIMIT_AS, (want, hard))
  except Exception:
    pass


_cap_memory()

# Counts around and beyond sys.maxsize (ints and finite floats; the list model slices with them
# without any error).  Before proposed-fixes/C03-count-beyond-maxsize.diff the code raised
# ValueError for those above it (itertools.islice refuses such a bound).
HUGE = [sys.maxsize + 1, 2 ** 63 + 5, 2 ** 64, 10 ** 30, 1e19, float(2 ** 63), 1e30, 1.7e308,
        sys.maxsize, sys.maxsize - 1]
FAR = 10 ** 9      # no read of an endless stream is asked to go this far
SITE_HUGE = "count beyond sys.maxsize"

INF = float("inf")
K_INV = 8        # items compared per live object
BOUND = 1 << 15  # pull bound of the bounded endless source (an eager stage trips it)
POOL_MAX = 12
DEEP = 2600      # stacked stages beyond the default recursion limit + the 2000 frames Hypothesis reserves


class _Mine(object):
  """What the caller writes into a container it got back: never a stream item."""
  def __repr__(self):
    return "<written by the caller>"


MINE = _Mine()


def scribble(r):
  """The caller owns what take/peek returned: it works on the list in place.
  A later result that shows any of this is not a value of the list model."""
  if type(r) is list:
    r.reverse()
    r.append(MINE)
    if len(r) % 2:
      r[0] = MINE


def _num(v):
  return isinstance(v, (int, float)) and not isinstance(v, bool)


FUNCS = {
  "neg": lambda v: -v if _num(v) else v,
  "dbl": lambda v: v * 2 if _num(v) else v,
  "inc": lambda v: v + 1 if _num(v) else v,
  "pair": lambda v: (v, v),
  "ident": lambda v: v,
}
PREDS = {
  "even": lambda v: _num(v) and v % 2 == 0,
  "pos": lambda v: _num(v) and v > 0,
  "num": _num,
  "truthy": lambda v: bool(v),
  "notnone": lambda v: v is not None,
  "all": lambda v: True,
}


# --------------------------------------------------------------------------
# the model: immutable list = finite prefix followed by an optional cycle
# --------------------------------------------------------------------------
class M(object):
  __slots__ = ("p", "c")

  def __init__(self, p, c=None):
    self.p = list(p)
    self.c = list(c) if c else None

  def copy(self):
    return M(self.p, self.c)

  def finite(self):
    return self.c is None

  def remaining(self):
    return len(self.p) if self.c is None else INF

  def first(self, n):
    out = list(self.p[:n])
    if self.c is not None:
      while len(out) < n:
        out.append(self.c[(len(out) - len(self.p)) % len(self.c)])
    return out

  def drop(self, n):
    if n <= len(self.p):
      self.p = self.p[n:]
    elif self.c is None:
      self.p = []
    else:
      k = (n - len(self.p)) % len(self.c)
      self.p = []
      self.c = self.c[k:] + self.c[:k]

  def keep(self, n):
    self.p = self.first(n)
    self.c = None

  def extend(self, other):
    if self.c is None:
      self.p = self.p + other.p
      self.c = list(other.c) if other.c else None

  def fmap(self, f):
    self.p = [f(v) for v in self.p]
    if self.c is not None:
      self.c = [f(v) for v in self.c]

  def ffilter(self, pr):
    self.p = [v for v in self.p if pr(v)]
    if self.c is not None:
      self.c = [v for v in self.c if pr(v)]

  def __repr__(self):
    return "M(%r%s)" % (self.p, "" if self.c is None else " + cycle %r" % (self.c,))


def same_item(x, y):
  """The very item: identical, or equal with equal types (True != 1, 2 != 2.0),
  floats also with the same sign of zero (0.0 != -0.0) and nan only for nan
  (a nan computed twice by a mapped function is two objects); tuples item by
  item under the same rule."""
  if x is y:
    return True
  if type(x) is not type(y):
    return False
  if isinstance(x, float):
    if x != x or y != y:
      return x != x and y != y
    return x == y and math.copysign(1., x) == math.copysign(1., y)
  if isinstance(x, tuple):
    return len(x) == len(y) and all(same_item(u, v) for u, v in zip(x, y))
  return x == y


def same(a, b):
  """Item-wise ``same_item``."""
  return len(a) == len(b) and all(same_item(x, y) for x, y in zip(a, b))


class _ReIter(object):
  """An iterable that is neither an iterator nor a sequence (no __len__, no
  __getitem__, no __next__): every iter() starts over."""
  def __init__(self, data):
    self.data = list(data)

  def __iter__(self):
    return iter(list(self.data))


def _range_of(d):
  return range(d[0], d[0] + len(d)) if d else range(0)


# iterables other than list / tuple / generator / iterator that a stream or a thub
# is built from or that are appended ("box" kinds); what the data has to look
# like for each is in _BOXDATA below
BOXES = {
  "str": lambda d: "".join(d),
  "bytes": lambda d: bytes(d),
  "bytearray": lambda d: bytearray(d),
  "range": _range_of,
  "dict": lambda d: dict.fromkeys(d),
  "keys": lambda d: dict.fromkeys(d).keys(),
  "values": lambda d: dict(enumerate(d)).values(),
  "deque": lambda d: deque(d),
  "frozenset": lambda d: frozenset(d),      # at most one item: no order to speak of
  "reiter": _ReIter,
  "array": lambda d: array.array("i", d),
}
TEXT_BOXES = ("str", "bytes", "bytearray")


def _split(x):
  """Finite float -> (floor, exact fractional part as a Fraction).  No float
  arithmetic: x + .5 is not exact (nextafter(.5, 0) + .5 == 1.0)."""
  q = Fraction(x)
  k = q.numerator // q.denominator
  return k, q - k


_HALF = Fraction(1, 2)


def half_away(x):
  """Documented rounding of take/peek (rint: "the step multiple nearest to x",
  exact halves "farthest to zero"), evaluated on the exact value of the float."""
  k, fr = _split(abs(x))
  return (k + 1 if fr >= _HALF else k) * (1 if x >= 0 else -1)


def is_half(x):
  """x is a finite float whose exact value is an integer plus one half."""
  return isinstance(x, float) and x == x and x not in (INF, -INF) and _split(x)[1] == _HALF


def ulps(x, k):
  """The float k representable steps above (k > 0) / below (k < 0) x."""
  for _ in range(abs(k)):
    x = math.nextafter(x, INF if k > 0 else -INF)
  return x


def near_half(x):
  """A finite float that is not an exact half but lies within 4 ulps of one."""
  if not isinstance(x, float) or x != x or x in (INF, -INF) or is_half(x) or abs(x) >= 2. ** 52:
    return False
  h = math.floor(x) + .5
  return ulps(h, -4) <= x <= ulps(h, 4)


def near_whole(x):
  """A finite non-integral float within 4 ulps of an integer."""
  if not isinstance(x, float) or x != x or x in (INF, -INF) or x == math.floor(x) or abs(x) >= 2. ** 52:
    return False
  w = float(round(x))
  return ulps(w, -4) <= x <= ulps(w, 4)


def take_count(n):
  """How many items take(n)/peek(n) asks for (n is not None)."""
  if isinstance(n, float):
    if n != n or n <= 0:
      return 0
    if n == INF:
      return INF
    return half_away(n)
  return max(n, 0)


def cut_count(n):
  """skip/limit count: nearest integer (n is an int or a non-half float),
  evaluated on the exact value of the float."""
  if isinstance(n, float):
    k, fr = _split(n)
    assert fr != _HALF, n
    n = k + 1 if fr > _HALF else k
  return max(n, 0)


def resolve_n(spec, m, for_cut=False):
  """Count spec -> actual argument.  ("v", x): x itself.  ("rel", d, frac):
  (remaining + d) + frac for a finite model, (3 + d) + frac for an endless
  one; frac None keeps an int.  ("big",): far beyond.  ("ulp", mode, j, half,
  k): the float k representable steps away from j (+ .5 when half), j absolute
  (mode "abs") or relative to the remaining length like "rel"."""
  if spec[0] == "v":
    n = spec[1]
  elif spec[0] == "ulp":
    base = spec[2] if spec[1] == "abs" else (len(m.p) if m.finite() else 3) + spec[2]
    n = ulps(float(base) + (.5 if spec[3] else 0.), spec[4])
  elif spec[0] == "big":
    n = 1000 if m.finite() else 12
  elif spec[0] == "huge":
    n = HUGE[spec[1] % len(HUGE)]
  else:
    base = (len(m.p) if m.finite() else 3) + spec[1]
    n = base if spec[2] is None else float(base) + spec[2]
  if for_cut:
    if n is None or (isinstance(n, float) and (n != n or n in (INF, -INF))):
      n = 2
    if is_half(n):
      n = n + .25      # exact halves are outside the domain of skip/limit
  return n


# --------------------------------------------------------------------------
# interpreter
# --------------------------------------------------------------------------
class E(object):
  """A live object: kind 's' (Stream) or 'h' (StreamTeeHub) + its model."""

  def __init__(self, kind, obj, m, fam, uses=0, pending=None, hard=False):
    self.hard = hard        # endless through itertools.cycle/repeat (no pull bound possible)
    self.kind = kind
    self.obj = obj
    self.m = m
    self.fam = fam          # family id shared by copies / tee outputs / hub uses
    self.uses = uses        # hub: uses left
    self.pending = pending  # 'skip' / 'limit' beyond the end applied lazily (defect site)
    self.depth = 0          # in-place stages (skip limit append map filter) stacked on the iterator
    self.deepskip = False   # >= 1000 of them are skip stages
    self.nskip = 0
    self.lastpeek = None    # hub: the last peek request (n, constructor), None after anything else
    self.justread = False   # the last thing done to this object was a consuming read (take / iteration):
                            # its iterator is the very object it was before that read
    self.over = False       # ... and that read asked for more than was left (the end was seen)


class Run(object):
  def __init__(self, case):
    self.case = case
    self.pool = []
    self.labels = set()
    self.nontrivial = False
    self.trace = []
    self.nfam = 0
    self.site = None
    self.in_drain = False

  # -- helpers -------------------------------------------------------------
  def fam(self):
    self.nfam += 1
    return self.nfam

  def fail(self, msg, site=None):
    tr = " ; ".join(self.trace[-14:])
    raise Violation("%s || history: %s" % (msg, tr), site=site or self.site)

  def real(self, e, what, fn, allowed=()):
    """Run real code; only ``allowed`` exception types may come back."""
    try:
      return ("ok", fn())
    except allowed as exc:
      return ("exc", exc)
    except Violation:
      raise
    except Exception as exc:
      site = None
      if e is not None and e.pending:
        site = "Stream.%s beyond the end" % e.pending
      if e is not None and isinstance(exc, RecursionError) and e.nskip >= 600:
        site = "Stream.skip stacked deep"
      self.fail("%s raised %s: %s (model %r)" % (what, type(exc).__name__, exc,
                                                 e.m if e is not None else None),
                site=site or self.site)

  def siblings(self, e):
    n = 0
    for o in self.pool:
      if o.fam == e.fam and (o.kind == "s" or o.uses > 0):
        n += 1
    return n

  def consuming(self, e):
    if self.siblings(e) >= 2:
      self.labels.add("interleaved copies")
      self.nontrivial = True

  def add_stream(self, obj, m, fam, pending=None, hard=False, parent=None):
    if not isinstance(obj, Stream):
      self.fail("expected a Stream, got %r" % (type(obj).__name__,))
    ne = E("s", obj, m, fam, pending=pending, hard=hard)
    if parent is not None:
      ne.depth, ne.nskip = parent.depth, parent.nskip
    self.pool.append(ne)
    return ne

  def stage(self, e, op):
    """One more in-place stage on e's iterator."""
    e.depth += 1
    if op == "skip":
      e.nskip += 1
    if e.justread:
      # nothing (no peek, no copy, no other stage) came between the read and this stage
      self.labels.add("stage right after a consuming read")
      self.labels.add("right after a read:" + op)
      if e.over:
        self.labels.add("stage on a stream read past its end")
        if op == "append":
          self.labels.add("append to a stream read past its end")
          self.nontrivial = True
    e.justread = e.over = False

  def was_read(self, e, over):
    """A consuming read (take / next / for / list) just ran on e."""
    e.over = bool(over) or (e.justread and e.over)
    e.justread = True

  def touched(self, e):
    """peek / copy / Stream(s): e's iterator was replaced or handed on."""
    e.justread = e.over = False

  def reading(self, e):
    """A read that pulls items through e's stages."""
    if e.depth >= DEEP:
      self.labels.add("read through %d+ stages" % DEEP)
      self.nontrivial = True

  def peeked(self, e, n, ctor):
    key = (type(n).__name__, repr(n), ctor)
    if e.lastpeek == key:
      self.labels.add("peek repeated alike")
      if e.kind == "h":
        self.labels.add("hub peek repeated alike")
    e.lastpeek = key

  def use_hub(self, h, what, fn):
    """One use of hub h through fn(); returns fn's result or None when the
    model says the hub is spent (IndexError confirmed)."""
    st_, r = self.real(h, what, fn, allowed=(IndexError,))
    if h.uses == 0:
      if st_ != "exc":
        self.fail("%s: use #%d of a thub that hands out fewer did not raise IndexError" % (what, 1))
      self.labels.add("hub exhausted")
      if not self.in_drain:
        self.labels.add("hub exhausted inside the history")
      self.nontrivial = True
      return None
    if st_ == "exc":
      self.fail("%s raised IndexError with %d use(s) left" % (what, h.uses))
    self.labels.add("hub use")
    self.consuming(h)
    h.uses -= 1
    return r

  def as_stream(self, e, how="Stream"):
    """Entry -> stream entry (a hub spends one use; None if it has none)."""
    if e.kind == "s":
      return e
    fn = {"Stream": lambda: Stream(e.obj), "iter": lambda: Stream(iter(e.obj)),
          "genexp": lambda: Stream(v for v in e.obj)}[how]
    r = self.use_hub(e, "%s(hub)" % how, fn)
    if r is None:
      return None
    return self.add_stream(r, e.m.copy(), e.fam, hard=e.hard, parent=e)

  def note_items(self, data, period=False):
    """Labels for items that only an exact comparison tells apart."""
    fl = [v for v in data if isinstance(v, float)]
    if any(v == 0 and math.copysign(1., v) < 0 for v in fl):
      self.labels.add("item:-0.0")
    if any(v != v for v in fl):
      self.labels.add("item:nan")
    if period and len(data) >= 2 and all(v == data[0] for v in data) \
        and not all(same_item(v, data[0]) for v in data):
      self.labels.add("period of equal but different items")
      if all(type(v) is type(data[0]) for v in data):
        self.labels.add("period of signed zeros")

  # -- initial pool --------------------------------------------------------
  def init(self, spec):
    kind, data = spec[0], list(spec[1])
    self.note_items(data)
    if kind == "list":
      return self.add_stream(Stream(list(data)), M(data), self.fam())
    if kind == "tuple":
      return self.add_stream(Stream(tuple(data)), M(data), self.fam())
    if kind == "gen":
      return self.add_stream(Stream(v for v in data), M(data), self.fam())
    if kind == "iter":
      return self.add_stream(Stream(iter(data)), M(data), self.fam())
    if kind == "chain":
      h = len(data) // 2
      return self.add_stream(Stream(data[:h], iter(data[h:])), M(data), self.fam())
    if kind == "src":       # finite counting source
      return self.add_stream(Stream(Src(data)), M(data), self.fam())
    if kind.startswith("box:") or kind.startswith("box2:"):
      # any other iterable: a str, bytes, a range, a dict, a view, a deque, ...
      name = kind.split(":")[1]
      self.labels.add("box source")
      self.labels.add("box:" + name)
      if kind.startswith("box2:"):      # chained constructor over two of them
        h = len(data) // 2
        return self.add_stream(Stream(BOXES[name](data[:h]), BOXES[name](data[h:])), M(data), self.fam())
      return self.add_stream(Stream(BOXES[name](data)), M(data), self.fam())
    if kind in ("rep", "rep2"):   # a *finite* constant stream: itertools.repeat(value, times)
      import itertools
      vals = list(data[:1]) * spec[2]
      real = Stream(itertools.repeat(data[0], spec[2])) if kind == "rep" else lit.repeat(data[0], spec[2])
      self.labels.add("finite repeat")
      return self.add_stream(real, M(vals), self.fam())
    if kind == "per":       # periodic constructor (>= 2 scalars)
      self.labels.add("periodic")
      self.note_items(data, period=True)
      return self.add_stream(Stream(*data), M([], data), self.fam(), hard=True)
    if kind == "const":
      self.labels.add("periodic")
      return self.add_stream(Stream(data[0]), M([], data[:1]), self.fam(), hard=True)
    if kind == "endless":   # periodic content from a bounded source
      self.labels.add("periodic")
      d = list(data)
      return self.add_stream(Stream(Src(f=lambda i: d[i % len(d)], bound=BOUND)),
                             M([], d), self.fam())
    if kind.startswith("tee:"):   # tee of a plain iterator -> n independent Streams
      n = spec[2]
      raw = (v for v in data) if kind == "tee:gen" else iter(data)
      outs = lit.tee(raw, n)
      if not (isinstance(outs, tuple) and len(outs) == n):
        self.fail("tee(iterator, %d) returned %r" % (n, outs))
      fam = self.fam()
      for o in outs:
        self.add_stream(o, M(data), fam)
      self.labels.add("tee")
      return None
    if kind.startswith("hub:") or kind.startswith("hubadv:"):
      n = spec[2]
      sub = kind.split(":")[1]
      if sub == "list":
        raw, m = list(data), M(data)
      elif sub == "gen":
        raw, m = (v for v in data), M(data)
      elif sub == "stream":
        raw, m = Stream(list(data)), M(data)
      elif sub in BOXES:
        raw, m = BOXES[sub](data), M(data)
        self.labels.add("box source")
        self.labels.add("hub of a box")
        if sub in TEXT_BOXES:
          self.labels.add("hub of text")
      else:
        self.labels.add("periodic")
        raw, m = Stream(*data), M([], data)
      h = thub(raw, n)
      if not isinstance(h, Stream):
        self.fail("thub(%r, %d) returned %r: not a thub" % (raw, n, h))
      ne = E("h", h, m, self.fam(), uses=n, hard=(sub == "per"))
      if kind.startswith("hubadv:"):
        # documented in StreamTeeHub.take: Stream.take(hub, n) on a hub nothing was
        # read from yet consumes from every use at once
        k = spec[3]
        exp = m.first(k)
        got = self.real(ne, "Stream.take(fresh hub, %d)" % k, lambda: Stream.take(h, k))[1]
        if not same(got, exp):
          self.fail("Stream.take(fresh hub, %d) -> %r, model says %r" % (k, got, exp))
        scribble(got)
        m.drop(len(exp))
        self.labels.add("hub advanced for every use")
      self.pool.append(ne)
      self.labels.add("thub")
      return ne
    raise AssertionError(kind)

  # -- one step ------------------------------------------------------------
  def take_like(self, e, op, n, ctor="list"):
    """take / peek on a stream entry, or peek on a hub entry."""
    m = e.m
    kw = {} if ctor == "list" else {"constructor": tuple}
    self.reading(e)
    if op == "peek":
      self.peeked(e, n, ctor)
    if n is None:
      exp = m.first(1)
      st_, r = self.real(e, "%s()" % op, lambda: getattr(e.obj, op)(),
                         allowed=(StopIteration,))
      if exp:
        if st_ == "exc":
          self.fail("%s() raised StopIteration, model has %r next" % (op, exp[0]))
        if not same([r], exp):
          self.fail("%s() -> %r, model says %r" % (op, r, exp[0]))
        if op == "take":
          self.consuming(e)
          m.drop(1)
      else:
        if st_ != "exc":
          self.fail("%s() on an exhausted stream returned %r instead of raising StopIteration" % (op, r))
        self.labels.add("StopIteration")
      self.labels.add("n:None")
      if op == "take":
        self.was_read(e, not exp)
      else:
        self.touched(e)
      return
    c = take_count(n)
    if (c == INF or c >= FAR) and not m.finite():
      self.labels.add("skipped: inf on endless")
      return
    short = c != INF and c > m.remaining()
    if short:
      self.labels.add("short take")
      self.nontrivial = True
      self.site = "Stream.%s beyond the end" % op
    if c != INF and c > sys.maxsize:
      self.labels.add("n:beyond sys.maxsize")
      self.site = SITE_HUGE
    exp = m.first(len(m.p) if c == INF else c)
    st_, r = self.real(e, "%s(%r)" % (op, n), lambda: getattr(e.obj, op)(n, **kw))
    self.site = None
    if type(r) is not (list if ctor == "list" else tuple):
      self.fail("%s(%r) returned a %s" % (op, n, type(r).__name__))
    if not same(list(r), exp):
      self.fail("%s(%r) -> %r, model says %r (model %r)" % (op, n, r, exp, m))
    scribble(r)       # the result is the caller's: later results must not show this
    if isinstance(n, float):
      if n != n:
        self.labels.add("n:nan")
      elif n == INF:
        self.labels.add("n:inf")
      elif n == -INF:
        self.labels.add("n:-inf")
      elif is_half(n) and n > 0:
        self.labels.add("n:half float")
      else:
        self.labels.add("n:float")
      if near_half(n) and n > 0:
        self.labels.add("n:next to a half")
        if m.remaining() > int(n):     # enough items left for the direction to show
          self.labels.add("n:next to a half, decisive")
      elif near_whole(n) and n > 0:
        self.labels.add("n:next to an integer")
    elif n < 0:
      self.labels.add("n:negative")
    elif c == m.remaining():
      self.labels.add("n:exactly the rest")
    if op == "take":
      self.was_read(e, short or c == INF)
    else:
      self.touched(e)
    if op == "take" and exp:
      self.consuming(e)
      m.drop(len(exp))

  def step(self, stp):
    op, idx, arg = stp[0], stp[1], stp[2]
    pool = self.pool
    if op == "thub_obj":
      obj, n = arg
      if isinstance(obj, (tuple, list)) and len(obj) == 2 and obj[0] == "@named":
        obj = NONITER[obj[1]]
      r = self.real(None, "thub(%r, %d)" % (obj, n), lambda: thub(obj, n))[1]
      if r is not obj:
        self.fail("thub(%r, %d) is %r, not the object itself" % (obj, n, r))
      self.labels.add("thub non-iterable")
      return
    if op == "rep":       # the sub-steps, over and over: a long history in a small case
      k, subs = arg
      self.trace.append("%d x (" % k)
      start = len(self.trace)
      for _ in range(k):
        for sub in subs:
          self.step(sub)
          if len(self.trace) - start > 6:
            del self.trace[start + 2:-2]
      self.trace.append(")")
      if k >= DEEP:
        for sub in subs:
          self.labels.add("deep:" + sub[0])
      return
    e = pool[idx % len(pool)]
    self.trace.append("%s[%d:%s%s]%r" % (op, idx % len(pool), e.kind,
                                          "/%d" % e.uses if e.kind == "h" else "", arg))
    self.labels.add("op:" + op)

    if op in ("take", "peek"):
      n = resolve_n(arg[0], e.m)
      ctor = arg[1]
      if e.kind == "h":
        if op == "peek":
          if e.uses == 0:
            st_, r = self.real(e, "hub.peek", lambda: e.obj.peek(n), allowed=(IndexError,))
            if st_ != "exc":
              self.fail("peek on a spent thub returned %r instead of raising IndexError" % (r,))
            self.labels.add("hub exhausted")
            return
          self.labels.add("hub peek")
          return self.take_like(e, "peek", n, ctor)
        e = self.as_stream(e)
        if e is None:
          return
      return self.take_like(e, op, n, ctor)

    if op in ("skip", "limit"):
      n = resolve_n(arg, e.m, for_cut=True)
      c = cut_count(n)
      if c >= FAR and op == "skip" and not e.m.finite():
        self.labels.add("skipped: far skip on endless")      # the next read would never return
        return
      if c > sys.maxsize:
        self.labels.add("cut:beyond sys.maxsize")
        self.site = SITE_HUGE
      if e.kind == "h":
        r = self.use_hub(e, "hub.%s(%r)" % (op, n), lambda: getattr(e.obj, op)(n))
        self.site = None
        if r is None:
          return
        e = self.add_stream(r, e.m.copy(), e.fam, hard=e.hard, parent=e)
      else:
        r = self.real(e, "%s(%r)" % (op, n), lambda: getattr(e.obj, op)(n))[1]
        self.site = None
        if r is not e.obj:
          self.fail("%s(%r) did not return the stream itself" % (op, n))
      self.stage(e, op)
      if c >= FAR and not e.m.finite():
        return      # limit further than any read goes: the endless model stays as it is
      if c > e.m.remaining():
        self.labels.add("short " + op)
        self.nontrivial = True
        e.pending = e.pending or op
      if isinstance(n, float):
        self.labels.add("cut:float")
        if near_half(n) and n > 0:
          self.labels.add("cut:next to a half")
        elif near_whole(n) and n > 0:
          self.labels.add("cut:next to an integer")
      elif n < 0:
        self.labels.add("cut:negative")
      if op == "skip":
        if c:
          self.consuming(e)
        e.m.drop(c)
      else:
        e.m.keep(c)
      return

    if op == "append":
      return self.do_append(e, idx % len(pool), arg)

    if op in ("map", "filter"):
      table = FUNCS if op == "map" else PREDS
      f = table[arg]
      if op == "filter" and e.m.c is not None and not any(f(v) for v in e.m.c):
        self.labels.add("skipped: filter would never yield")
        return
      if op == "filter" and e.m.c is not None and e.hard and all(f(v) for v in e.m.c):
        # harness safety only: on an unboundable C-level cycle a wrongly negated
        # filter would spin for ever; the bounded endless source covers this case
        self.labels.add("skipped: all-pass filter on itertools.cycle")
        return
      if e.kind == "h":
        r = self.use_hub(e, "hub.%s(%s)" % (op, arg), lambda: getattr(e.obj, op)(f))
        if r is None:
          return
        e = self.add_stream(r, e.m.copy(), e.fam, hard=e.hard, parent=e)
      else:
        r = self.real(e, "%s(%s)" % (op, arg), lambda: getattr(e.obj, op)(f))[1]
        if r is not e.obj:
          self.fail("%s(%s) did not return the stream itself" % (op, arg))
      self.stage(e, op)
      if op == "map":
        e.m.fmap(f)
      else:
        e.m.ffilter(f)
      return

    if op == "copy":
      if len(pool) >= POOL_MAX:
        return
      if e.kind == "h":
        st_, r = self.real(e, "hub.copy()", lambda: e.obj.copy(), allowed=(IndexError,))
        if e.uses == 0:
          if st_ != "exc":
            self.fail("copy() of a spent thub returned %r instead of raising IndexError" % (r,))
          self.labels.add("hub exhausted")
          return
        if st_ == "exc":
          self.fail("hub.copy() raised IndexError with %d use(s) left" % e.uses)
        self.labels.add("hub copy")
      else:
        r = self.real(e, "copy()", lambda: e.obj.copy())[1]
        if r is e.obj:
          self.fail("copy() returned the stream itself")
        self.touched(e)
      self.add_stream(r, e.m.copy(), e.fam, pending=e.pending, hard=e.hard, parent=e)
      return

    if op == "tee":
      if len(pool) + arg > POOL_MAX + 3:
        return
      if e.kind == "h":
        outs = self.use_hub(e, "tee(hub, %d)" % arg, lambda: lit.tee(e.obj, arg))
        if outs is None:
          return
      else:
        outs = self.real(e, "tee(s, %d)" % arg, lambda: lit.tee(e.obj, arg))[1]
        pool.remove(e)      # documented: the source must not be used again
      if not (isinstance(outs, tuple) and len(outs) == arg):
        self.fail("tee(.., %d) returned %r" % (arg, outs))
      if len(set(id(o) for o in outs)) != arg:
        self.fail("tee outputs are not distinct objects")
      for o in outs:
        self.add_stream(o, e.m.copy(), e.fam, pending=e.pending, hard=e.hard, parent=e)
      self.labels.add("tee")
      return

    if op == "hub":
      if len(pool) >= POOL_MAX:
        return
      if e.kind == "h":
        h = self.use_hub(e, "thub(hub, %d)" % arg, lambda: thub(e.obj, arg))
        if h is None:
          return
      else:
        h = self.real(e, "thub(s, %d)" % arg, lambda: thub(e.obj, arg))[1]
        pool.remove(e)
      if h is e.obj or not isinstance(h, Stream):
        self.fail("thub(stream, n) returned %r" % (h,))
      ne = E("h", h, e.m.copy(), e.fam, uses=arg, pending=e.pending, hard=e.hard)
      ne.depth, ne.nskip = e.depth, e.nskip
      pool.append(ne)
      self.labels.add("thub")
      return

    if op == "use":
      if e.kind == "h":
        self.as_stream(e, arg)
      else:
        r = self.real(e, "Stream(s)", lambda: Stream(e.obj))[1]
        e.obj = r
        self.touched(e)
      return

    # the remaining operations need a Stream
    e = self.as_stream(e)
    if e is None:
      return

    if op in ("next", "for"):
      k = arg
      exp = e.m.first(k)
      self.reading(e)
      got = []
      stopped = False
      if op == "next":
        def run():
          it_ = iter(e.obj)
          for _ in range(k):
            try:
              got.append(next(it_))
            except StopIteration:
              return True
          return False
      else:
        def run():
          if k == 0:
            return False
          for v in e.obj:
            got.append(v)
            if len(got) == k:
              return False
          return True
      stopped = self.real(e, "%s x%d" % (op, k), run)[1]
      if not same(got, exp):
        self.fail("iteration gave %r, model says %r" % (got, exp))
      if stopped != (len(exp) < k):
        self.fail("iteration %s, model has %d item(s) for %d request(s)"
                  % ("stopped" if stopped else "did not stop", len(exp), k))
      if stopped:
        self.labels.add("StopIteration")
      self.was_read(e, stopped)
      if exp:
        self.consuming(e)
      e.m.drop(len(exp))
      return

    if op == "list":
      if not e.m.finite():
        self.labels.add("skipped: list on endless")
        return
      how = arg
      exp = list(e.m.p)
      self.reading(e)
      fn = {"list": lambda: list(e.obj), "tuple": lambda: list(tuple(e.obj)),
            "comp": lambda: [v for v in e.obj]}[how]
      got = self.real(e, "%s(s)" % how, fn)[1]
      if not same(got, exp):
        self.fail("%s(s) -> %r, model says %r" % (how, got, exp))
      self.was_read(e, True)
      if exp:
        self.consuming(e)
      e.m.drop(len(exp))
      return

    raise AssertionError(op)

  def do_append(self, e, ei, spec):
    pool = self.pool
    kind = spec[0]
    # the operands, in evaluation order
    if kind == "list":
      args, add = [list(spec[1])], M(spec[1])
    elif kind == "gen":
      d = list(spec[1])
      args, add = [(v for v in d)], M(d)
    elif kind == "lists":
      args, add = [list(spec[1]), iter(list(spec[2]))], M(list(spec[1]) + list(spec[2]))
    elif kind == "scalars":
      args, add = list(spec[1]), M([], spec[1])
      self.note_items(list(spec[1]), period=True)
    elif kind == "box":
      args, add = [BOXES[spec[1]](list(spec[2]))], M(spec[2])
      self.labels.add("box source")
    else:
      args, add = None, None
    self.labels.add("append:" + kind)

    # target: a hub spends one use first
    if e.kind == "h":
      if kind in ("pool", "self"):
        tgt = self.as_stream(e)
        if tgt is None:
          return
      else:
        r = self.use_hub(e, "hub.append(..)", lambda: e.obj.append(*args))
        if r is None:
          return
        tgt = self.add_stream(r, e.m.copy(), e.fam, hard=e.hard, parent=e)
        self.stage(tgt, "append")
        if tgt.m.finite() and kind == "scalars":
          tgt.hard = True
        tgt.m.extend(add)
        return
    else:
      tgt = e
    self.stage(tgt, "append")

    if args is not None:
      r = self.real(tgt, "append(%s)" % kind, lambda: tgt.obj.append(*args))[1]
      if r is not tgt.obj:
        self.fail("append did not return the stream itself")
      if tgt.m.finite() and kind == "scalars":
        tgt.hard = True
      tgt.m.extend(add)
      return

    if kind == "self":
      o = e if e.kind == "h" else tgt
    else:
      o = pool[spec[1] % len(pool)]
      if o is tgt:
        o = e if e.kind == "h" else tgt
    if o is tgt:          # s.append(s.copy())
      add = tgt.m.copy()
      r = self.real(tgt, "append(self.copy())", lambda: tgt.obj.append(tgt.obj.copy()))[1]
      if r is not tgt.obj:
        self.fail("append did not return the stream itself")
      tgt.m.extend(add)
      return
    if o.kind == "h":
      add = o.m.copy()
      r = self.use_hub(o, "s.append(hub)", lambda: tgt.obj.append(o.obj))
      if r is None:
        return
      if r is not tgt.obj:
        self.fail("append did not return the stream itself")
      tgt.hard = tgt.hard or o.hard
      tgt.m.extend(add)
      return
    add = o.m
    r = self.real(tgt, "append(other stream)", lambda: tgt.obj.append(o.obj))[1]
    if r is not tgt.obj:
      self.fail("append did not return the stream itself")
    pool.remove(o)        # handed over: dead
    tgt.depth, tgt.nskip = max(tgt.depth, o.depth + 1), max(tgt.nskip, o.nskip)
    if tgt.m.finite() and o.pending:
      tgt.pending = tgt.pending or o.pending
    tgt.hard = tgt.hard or o.hard
    tgt.m.extend(add)

  # -- invariants ----------------------------------------------------------
  def invariants(self, when):
    for e in self.pool:
      if e.kind == "h" and e.uses == 0:
        continue
      k = int(min(K_INV, e.m.remaining()))
      self.reading(e)
      self.peeked(e, k, "list")
      got = self.real(e, "invariant peek(%d) %s" % (k, when), lambda: e.obj.peek(k))[1]
      exp = e.m.first(k)
      if not same(got, exp):
        self.fail("%s: a live %s shows %r next, model says %r"
                  % (when, "thub" if e.kind == "h" else "stream", got, exp))
      scribble(got)
      self.touched(e)

  # -- final drain ---------------------------------------------------------
  def drain(self, sched):
    pool = self.pool
    self.trace.append("drain")
    self.in_drain = True
    # every hub: hand out what is left, then one use too many
    for h in [e for e in pool if e.kind == "h"]:
      hows = ["Stream", "iter", "genexp"]
      while h.uses > 0:
        self.as_stream(h, hows[h.uses % 3])
      self.as_stream(h, hows[len(pool) % 3])      # must raise IndexError
      pool.remove(h)
    delivered = {}
    live = list(pool)
    for idx, c in sched:
      if not live:
        break
      e = live[idx % len(live)]
      self.trace.append("d-take[%d]%d" % (idx % len(live), c))
      before = e.m.remaining()
      self.take_like(e, "take", c)
      delivered[id(e)] = delivered.get(id(e), 0) + c
      if (e.m.finite() and before < c) or (not e.m.finite() and delivered[id(e)] >= K_INV):
        live.remove(e)
    for j, e in enumerate(live):
      self.trace.append("d-rest[%d]" % j)
      if not e.m.finite():
        self.take_like(e, "take", K_INV)
        continue
      how = (j + len(e.m.p)) % 4
      if how == 0:
        self.step(["list", pool.index(e), "list"])
      elif how == 1:
        self.take_like(e, "take", INF)
      elif how == 2:
        self.take_like(e, "take", len(e.m.p) + 2)
      else:
        self.take_like(e, "peek", INF)
        self.step(["next", pool.index(e), len(e.m.p) + 1])
      self.take_like(e, "take", None)      # exhausted: StopIteration


def run_history(case):
  run = Run(case)
  for spec in case["init"]:
    run.init(spec)
  each = case.get("inv", "each") == "each"
  if each:
    run.invariants("at start")
  for i, stp in enumerate(case["steps"]):
    run.step(stp)
    if each:
      run.invariants("after step %d" % i)
  if not each:
    run.invariants("after the history")
  run.drain(case.get("drain", []))
  run.labels.add("inv:" + case.get("inv", "each"))
  return {"nontrivial": run.nontrivial, "labels": sorted(run.labels)}


def run_deep(case):
  """run_history in a forked child.  Harness safety, not an oracle: with
  thousands of stacked stages a stage that is an interpreter frame (a
  generator) does not always end in a RecursionError - CPython 3.12 can abort
  the whole process ("Cannot recover from stack overflow") when such frames
  alternate with itertools.tee objects.  A dead pool worker would hang the
  run; a dead child is reported as what it is: the history did not yield what
  the list model yields."""
  rd, wr = os.pipe()
  pid = os.fork()
  if pid == 0:
    code = 0
    try:
      os.close(rd)
      null = os.open(os.devnull, os.O_WRONLY)
      os.dup2(null, 2)          # the abort dumps one line per frame
      try:
        out = ("ok", run_history(case))
      except Violation as v:
        out = ("violation", v.detail, v.site)
      except BaseException as exc:
        out = ("exception", type(exc).__name__, str(exc)[:400])
      blob = pickle.dumps(out)
      while blob:
        blob = blob[os.write(wr, blob):]
    except BaseException:
      code = 3
    finally:
      os._exit(code)
  os.close(wr)
  chunks = []
  while True:
    b = os.read(rd, 1 << 16)
    if not b:
      break
    chunks.append(b)
  os.close(rd)
  status = os.waitpid(pid, 0)[1]
  if os.WIFSIGNALED(status) or os.WEXITSTATUS(status) != 0 or not chunks:
    how = ("signal %d" % os.WTERMSIG(status)) if os.WIFSIGNALED(status) else ("exit status %d" % os.WEXITSTATUS(status))
    rp = [stp for stp in case["steps"] if stp[0] == "rep"]
    nskip = sum(stp[2][0] for stp in rp for sub in stp[2][1] if sub[0] == "skip")
    raise Violation("the interpreter died (%s) while this history ran instead of yielding the model's items: %r"
                    % (how, case["steps"]), site="Stream.skip stacked deep" if nskip >= 600 else None)
  out = pickle.loads(b"".join(chunks))
  if out[0] == "ok":
    return out[1]
  if out[0] == "violation":
    raise Violation(out[1], site=out[2])
  raise Violation("unexpected %s: %s" % (out[1], out[2]))


# --------------------------------------------------------------------------
# strategies
# --------------------------------------------------------------------------
NAN = float("nan")
_scalar = st.one_of(st.integers(-9, 9), st.integers(-9, 9), st.none(), st.booleans(),
                    st.sampled_from([.5, -1.5, 2., 0., -0., 1., NAN])
                    )
# periods whose items are all equal under == without being the same item: signed
# zeros, one number in several types
_EQUALS = [[0., -0.], [-0., 0.], [0., -0., 0.], [-0., -0., 0.], [0, 0., False, -0.], [1, True, 1.],
           [2, 2.], [0., 0, -0.], [True, 1]]
_eqperiod = st.sampled_from(_EQUALS).flatmap(
  lambda g: st.lists(st.sampled_from(g), min_size=2, max_size=4).filter(
    lambda l: any(not same_item(v, l[0]) for v in l)))


def _boxdata(n):
  """(box name, items) pairs: the items are what iterating the box yields."""
  ints = st.lists(st.integers(0, 9), max_size=n)
  return st.one_of(
    st.tuples(st.just("str"), st.lists(st.sampled_from("abc"), max_size=n)),
    st.tuples(st.just("str"), st.lists(st.sampled_from("abc"), max_size=n)),
    st.tuples(st.sampled_from(["bytes", "bytearray", "array"]), ints),
    st.tuples(st.just("range"), st.tuples(st.integers(-3, 3), st.integers(0, n)).map(
      lambda t: list(range(t[0], t[0] + t[1])))),
    st.tuples(st.sampled_from(["dict", "keys"]),
              st.lists(st.one_of(st.integers(-9, 9), st.text("ab", max_size=2), st.none()),
                       max_size=n, unique=True)),
    st.tuples(st.sampled_from(["values", "deque", "reiter"]), st.lists(_item, max_size=n)),
    st.tuples(st.just("frozenset"), st.lists(st.integers(-9, 9), max_size=1)),
  )
_item = st.one_of(st.integers(-9, 9), st.integers(-9, 9), st.integers(-9, 9), _scalar,
                  st.text("ab", max_size=2),
                  st.tuples(st.integers(0, 3)), st.just(()))


def _hubadv(n):
  return st.one_of(
    st.tuples(st.sampled_from(["hubadv:list", "hubadv:gen", "hubadv:stream"]),
              st.lists(_item, max_size=n), st.integers(0, 3), st.integers(0, 5)),
    st.tuples(st.just("hubadv:per"), st.lists(_scalar, min_size=2, max_size=3),
              st.integers(0, 3), st.integers(0, 5)))


def _inits(tier, hubs=True):
  n = 7 if tier == "quick" else 12
  fin = st.tuples(st.sampled_from(["list", "gen", "iter", "tuple", "chain", "src"]),
                  st.lists(_item, max_size=n))
  rng = st.tuples(st.sampled_from(["list", "gen"]),
                  st.integers(0, n).map(lambda k: list(range(k))))
  per = st.tuples(st.just("per"), st.one_of(st.lists(_scalar, min_size=2, max_size=4),
                                            st.lists(_scalar, min_size=2, max_size=4), _eqperiod))
  box = st.tuples(st.sampled_from(["box:", "box:", "box2:"]), _boxdata(n)).map(
    lambda t: (t[0] + t[1][0], t[1][1]))
  const = st.tuples(st.just("const"), st.lists(_scalar, min_size=1, max_size=1))
  endless = st.tuples(st.just("endless"), st.lists(_item, min_size=1, max_size=4))
  teed = st.tuples(st.sampled_from(["tee:gen", "tee:iter"]), st.lists(_item, max_size=n),
                   st.integers(1, 3))
  rep = st.tuples(st.sampled_from(["rep", "rep2"]), st.lists(_scalar, min_size=1, max_size=1), st.integers(0, n))
  opts = [fin, fin, fin, rng, per, const, endless, teed, rep, box]
  if hubs:
    opts.append(st.tuples(_boxdata(n), st.integers(0, 3)).map(lambda t: ("hub:" + t[0][0], t[0][1], t[1])))
    opts.append(st.tuples(st.sampled_from(["hub:list", "hub:gen", "hub:stream"]),
                          st.lists(_item, max_size=n), st.integers(0, 3)))
    opts.append(st.tuples(st.just("hub:per"), st.lists(_scalar, min_size=2, max_size=3),
                          st.integers(1, 3)))
    opts.append(_hubadv(n))
  return st.one_of(*opts)


_FRACS = [0., .5, .25, -.25, .4999, -.5]
# floats a few representable steps away from a half / an integer (the half itself
# for k = 0): absolute small ones and ones placed around the remaining length
_ULPK = st.sampled_from([-1, -1, -1, 1, 1, 1, -2, 2, -3, 3, 0])
_ulpspec = st.one_of(
  st.tuples(st.just("ulp"), st.just("abs"), st.integers(0, 6), st.booleans(), _ULPK),
  st.tuples(st.just("ulp"), st.just("abs"), st.integers(0, 2), st.just(True), _ULPK),
  st.tuples(st.just("ulp"), st.just("rel"), st.integers(-3, 1), st.just(True), _ULPK),
  st.tuples(st.just("ulp"), st.just("rel"), st.integers(-2, 2), st.booleans(), _ULPK),
)
_nspec = st.one_of(
  _ulpspec,
  st.just(("v", None)),
  st.integers(-2, 12).map(lambda k: ("v", k)),
  st.tuples(st.just("rel"), st.integers(-2, 3), st.none()),
  st.tuples(st.just("rel"), st.integers(-2, 3), st.none()),
  st.tuples(st.just("rel"), st.integers(-1, 3), st.sampled_from(_FRACS)),
  st.sampled_from([2.5, 3.4, .4, .5, 1.5, -1.5, -0., 7., 1e-9, INF, INF, -INF,
                   float("nan")]).map(lambda x: ("v", x)),
  st.just(("big",)),
  st.tuples(st.just("huge"), st.integers(0, len(HUGE) - 1)),
)
_cutspec = st.one_of(
  _ulpspec,
  st.integers(-2, 12).map(lambda k: ("v", k)),
  st.tuples(st.just("rel"), st.integers(-2, 3), st.none()),
  st.tuples(st.just("rel"), st.integers(-2, 3), st.none()),
  st.tuples(st.just("rel"), st.integers(-1, 3), st.sampled_from([0., .25, -.25, .4, -.4])),
  st.sampled_from([2.3, 3.7, -.4, .4, 0., -0., 5.]).map(lambda x: ("v", x)),
  st.just(("big",)),
  st.tuples(st.just("huge"), st.integers(0, len(HUGE) - 1)),
)
_idx = st.integers(0, 11)
_appendspec = st.one_of(
  st.tuples(st.just("list"), st.lists(_item, max_size=3)),
  st.tuples(st.just("gen"), st.lists(_item, max_size=3)),
  st.tuples(st.just("lists"), st.lists(_item, max_size=2), st.lists(_item, max_size=2)),
  st.tuples(st.just("scalars"), st.lists(_scalar, min_size=1, max_size=3)),
  st.tuples(st.just("scalars"), _eqperiod),
  _boxdata(3).map(lambda t: ("box", t[0], t[1])),
  st.tuples(st.just("pool"), _idx),
  st.tuples(st.just("pool"), _idx),
  st.just(("self",)),
)
# non-iterables that are easily mistaken for iterables are named (cases are plain data)
class _NoIter(object):
  __iter__ = None     # explicitly not iterable


NONITER = {"class list": list, "class dict": dict, "class str": str, "class tuple": tuple,
           "class Stream": Stream, "class itertools.count": __import__("itertools").count,
           "builtin len": len, "object()": object(), "instance with __iter__ = None": _NoIter(),
           "NotImplemented": NotImplemented, "Ellipsis": Ellipsis}
_nonit = st.one_of(st.integers(-5, 5), st.none(), st.floats(allow_nan=False, width=16),
                   st.booleans(), st.just(1j),
                   st.sampled_from(sorted(NONITER)).map(lambda k: ("@named", k)),
                   st.sampled_from(sorted(NONITER)).map(lambda k: ("@named", k)))

_STEP = {
  "take": st.tuples(st.just("take"), _idx, st.tuples(_nspec, st.sampled_from(["list", "list", "tuple"]))),
  "peek": st.tuples(st.just("peek"), _idx, st.tuples(_nspec, st.sampled_from(["list", "list", "tuple"]))),
  "skip": st.tuples(st.just("skip"), _idx, _cutspec),
  "limit": st.tuples(st.just("limit"), _idx, _cutspec),
  "append": st.tuples(st.just("append"), _idx, _appendspec),
  "map": st.tuples(st.just("map"), _idx, st.sampled_from(sorted(FUNCS))),
  "filter": st.tuples(st.just("filter"), _idx, st.sampled_from(sorted(PREDS))),
  "copy": st.tuples(st.just("copy"), _idx, st.none()),
  "tee": st.tuples(st.just("tee"), _idx, st.integers(1, 3)),
  "hub": st.tuples(st.just("hub"), _idx, st.integers(0, 3)),
  "use": st.tuples(st.just("use"), _idx, st.sampled_from(["Stream", "iter", "genexp"])),
  "next": st.tuples(st.just("next"), _idx, st.integers(1, 4)),
  "for": st.tuples(st.just("for"), _idx, st.integers(0, 4)),
  "list": st.tuples(st.just("list"), _idx, st.sampled_from(["list", "tuple", "comp"])),
  "thub_obj": st.tuples(st.just("thub_obj"), st.just(0), st.tuples(_nonit, st.integers(0, 3))),
}


def _steps(weights, maxlen):
  names = []
  for name, w in sorted(weights.items()):
    names.extend([name] * w)
  return st.lists(st.sampled_from(names).flatmap(lambda nm: _STEP[nm]), max_size=maxlen)


_drain = st.lists(st.tuples(_idx, st.integers(1, 3)), max_size=12)

W_GENERAL = dict(take=4, peek=3, skip=3, limit=3, append=3, map=2, filter=2, copy=3,
                 tee=2, hub=2, use=3, next=2, list=1, thub_obj=1)
W_GENERAL["for"] = 1
W_COPIES = dict(take=5, peek=2, skip=2, limit=1, append=1, map=1, filter=1, copy=5,
                tee=3, hub=2, use=3, next=3)
W_COPIES["for"] = 2
W_HUB = dict(take=3, peek=4, skip=2, limit=2, append=3, map=2, filter=2, copy=3,
             tee=1, hub=2, use=6, next=2, thub_obj=1)


def strat_history(tier):
  maxlen = 12 if tier == "quick" else 40
  return st.fixed_dictionaries(dict(
    init=st.lists(_inits(tier), min_size=1, max_size=3),
    steps=_steps(W_GENERAL, maxlen),
    inv=st.sampled_from(["each", "each", "end"]),
    drain=_drain))


def strat_copies(tier):
  """One source, early copies, then mostly consumption: interleavings."""
  maxlen = 12 if tier == "quick" else 30
  pre = st.lists(st.one_of(_STEP["copy"], _STEP["tee"], _STEP["hub"], _STEP["map"],
                           _STEP["skip"], _STEP["copy"]), min_size=1, max_size=3)
  return st.fixed_dictionaries(dict(
    init=st.lists(_inits(tier, hubs=False), min_size=1, max_size=1),
    steps=st.tuples(pre, _steps(W_COPIES, maxlen)).map(lambda t: t[0] + t[1]),
    inv=st.sampled_from(["each", "end", "end"]),
    drain=_drain))


def strat_hub(tier):
  """The pool starts with a thub (or gets one first): uses, peeks, copies,
  the (n+1)-th use."""
  maxlen = 10 if tier == "quick" else 24
  hubinit = st.one_of(
    st.tuples(st.sampled_from(["hub:list", "hub:gen", "hub:stream"]),
              st.lists(_item, max_size=6), st.integers(0, 3)),
    st.tuples(st.just("hub:per"), st.lists(_scalar, min_size=2, max_size=3), st.integers(0, 3)))
  boxhub = st.tuples(_boxdata(6), st.integers(0, 3)).map(lambda t: ("hub:" + t[0][0], t[0][1], t[1]))
  hubinit = st.one_of(hubinit, hubinit, _hubadv(6), boxhub)
  return st.fixed_dictionaries(dict(
    init=st.tuples(hubinit, st.lists(_inits(tier), max_size=1)).map(lambda t: [t[0]] + t[1]),
    steps=_steps(W_HUB, maxlen),
    inv=st.sampled_from(["each", "end"]),
    drain=_drain))


_DEEP_MAPS = ["neg", "inc", "ident", "dbl"]      # "pair" would nest the items as deep as the stack
W_DEEP_POST = dict(take=4, peek=3, next=2, list=1, copy=2, use=1, skip=1, limit=1, map=1, filter=1,
                   append=1)
W_DEEP_POST["for"] = 2


def strat_deep(tier):
  """A long history in a small case: 1-2 in-place stages (and, half of the time, a
  small read between them) repeated k >= DEEP times on one stream, which may have
  copies / be one use of a thub; then reads, copies and the drain as everywhere."""
  kmax = 4000 if tier == "quick" else 6000
  inits = st.one_of(
    _inits(tier, hubs=False),
    st.tuples(st.sampled_from(["list", "gen", "src"]), st.integers(3, 12).map(lambda k: list(range(k)))),
    st.tuples(st.just("endless"), st.lists(st.integers(-9, 9), min_size=1, max_size=4)),
    st.tuples(st.just("per"), st.lists(st.integers(-9, 9), min_size=2, max_size=4)))

  def stage(t):
    mp = st.tuples(st.just("map"), st.just(t), st.sampled_from(_DEEP_MAPS))
    fl = st.tuples(st.just("filter"), st.just(t), st.sampled_from(sorted(PREDS)))
    lm = st.tuples(st.just("limit"), st.just(t), st.one_of(
      st.just(("big",)), st.tuples(st.just("rel"), st.integers(0, 3), st.none()),
      st.integers(6, 12).map(lambda v: ("v", v)), st.just(("rel", 1, .25))))
    sk = st.tuples(st.just("skip"), st.just(t), st.sampled_from(
      [("v", 0), ("v", 0), ("v", 0), ("v", 1), ("v", -1), ("v", .4), ("v", -0.)]))
    ap0 = st.tuples(st.just("append"), st.just(t), st.sampled_from([("list", []), ("gen", []), ("lists", [], [])]))
    ap1 = st.tuples(st.just("append"), st.just(t), st.tuples(st.sampled_from(["list", "gen"]),
                                                           st.lists(_item, min_size=1, max_size=1)))
    cheap = st.one_of(lm, sk, ap0, ap1)          # the model step costs O(1) list operations
    anyst = st.one_of(mp, mp, fl, lm, sk, ap0)
    return st.one_of(
      st.tuples(mp), st.tuples(mp), st.tuples(mp), st.tuples(fl), st.tuples(lm), st.tuples(sk), st.tuples(ap0),
      st.tuples(ap1), st.tuples(mp, anyst), st.tuples(anyst, anyst), st.tuples(anyst, anyst),
      st.tuples(cheap, cheap)).map(list)

  def read(t):
    return st.one_of(
      st.tuples(st.just("take"), st.just(t), st.tuples(st.sampled_from([("v", None), ("v", 1), ("v", 0), ("v", 1.5)]),
                                                      st.just("list"))),
      st.tuples(st.just("peek"), st.just(t), st.tuples(st.sampled_from([("v", None), ("v", 1), ("v", 2), ("rel", 1, None)]),
                                                      st.sampled_from(["list", "tuple"]))))

  # (steps before, index of the stream the stages go on)
  pres = st.sampled_from([
    ([], 0), ([], 0), ([("copy", 0, None)], 0), ([("copy", 0, None)], 1),
    ([("hub", 0, 2), ("use", 0, "Stream")], 1), ([("hub", 0, 3), ("use", 0, "iter")], 1),
    ([("tee", 0, 2)], 1), ([("hub", 0, 1), ("use", 0, "genexp"), ("copy", 1, None)], 1),
  ])

  def build(t):
    (pre, tgt), subs, rd, where, k, post, inv, drain, init = t
    subs = list(subs)
    if rd is not None:
      subs.insert(where % (len(subs) + 1), rd)
    return dict(init=[init], steps=[list(x) for x in pre] + [("rep", 0, (k, subs))] + list(post),
                inv=inv, drain=drain)

  return pres.flatmap(lambda pt: st.tuples(
    st.just(pt), stage(pt[1]), st.one_of(st.none(), read(pt[1])), st.integers(0, 2),
    st.integers(DEEP, kmax), _steps(W_DEEP_POST, 6), st.sampled_from(["each", "end"]), _drain,
    inits)).map(build)


def grid(tier, shard, nshards):
  """Every (source kind, length, consumed prefix, method, count), plain and behind
  a filter / map stage."""
  lens = range(0, 4) if tier == "quick" else range(0, 6)
  counts = [None, -2, -1, 0, .4, .5, 1.5, 2.5, 2.4999, 3.6, -1.5, -0., 1e-9,
            INF, -INF, float("nan"), 1000]
  cuts = [-2, -1, 0, .4, -.4, 2.3, 3.7, 1000]
  # the representable neighbours of the halves and of the integers of the box
  # (take/peek: the halves themselves are in ``counts``; skip/limit: not in the domain)
  near = [ulps(j + .5, k) for j in range(0, 4) for k in (-2, -1, 1, 2)]
  near += [ulps(float(j), k) for j in range(0, 4) for k in (-1, 1)]
  near += [ulps(-.5, 1), ulps(-.5, -1), ulps(1000.5, -1), ulps(1000.5, 1)]
  counts = counts + near + HUGE
  cuts = cuts + near + HUGE
  i = 0
  for kind in ("list", "gen", "per", "endless", "hub:list"):
    for n in lens:
      if kind in ("per",) and n < 2 or kind == "endless" and n < 1:
        continue
      data = list(range(10, 10 + n))
      spec = (kind, data, 2) if kind.startswith("hub") else (kind, data)
      for pre in (0, 1, 2):
        for op in ("take", "peek", "skip", "limit"):
          table = (counts if op in ("take", "peek") else cuts)
          for cnt in list(table) + list(range(1, n + 3)):
            i += 1
            if i % nshards != shard:
              continue
            arg = (("v", cnt), "list") if op in ("take", "peek") else ("v", cnt)
            steps = ([("take", 0, (("v", pre), "list"))] if pre else []) + [(op, 0, arg)]
            yield dict(init=[spec], steps=steps, inv="end" if (i // nshards) % 2 else "each",
                       drain=[])
  # the same box behind a filter / map stage (the stage changes the period and the
  # length of what remains): every int count up to beyond the rest, one float, far beyond
  for kind in ("list", "per", "endless", "hub:list"):
    for n in lens:
      if kind in ("per",) and n < 2 or kind == "endless" and n < 1:
        continue
      data = list(range(10, 10 + n))
      spec = (kind, data, 2) if kind.startswith("hub") else (kind, data)
      for stage in (("filter", 0, "even"), ("filter", 0, "pos"), ("map", 0, "neg")):
        for pre in (0, 1):
          for op in ("take", "peek", "skip", "limit"):
            for cnt in list(range(0, n + 3)) + [2.3, 1000]:
              i += 1
              if i % nshards != shard:
                continue
              arg = (("v", cnt), "list") if op in ("take", "peek") else ("v", cnt)
              steps = [stage] + ([("take", 0, (("v", pre), "list"))] if pre else []) + [(op, 0, arg)]
              yield dict(init=[spec], steps=steps, inv="end" if (i // nshards) % 2 else "each",
                         drain=[])


def _alphabet(t):
  """Single steps on pool entry t: consuming reads (short of, up to and past the end),
  the reads that replace the iterator (peek, copy), every in-place stage."""
  tk = lambda spec: ("take", t, (spec, "list"))
  return [
    ("take rest", tk(("rel", 0, None))), ("take rest+1", tk(("rel", 1, None))), ("take 1", tk(("v", 1))),
    ("take()", tk(("v", None))), ("take inf", tk(("v", INF))), ("for 2", ("for", t, 2)),
    ("list", ("list", t, "list")),
    ("peek 2", ("peek", t, (("v", 2), "list"))), ("copy", ("copy", t, None)),
    ("append [7]", ("append", t, ("list", [7]))), ("append gen", ("append", t, ("gen", [8, 9]))),
    ("append []", ("append", t, ("list", []))), ("append 5 6", ("append", t, ("scalars", [5, 6]))),
    ("limit 2", ("limit", t, ("v", 2))), ("limit 3", ("limit", t, ("v", 3))), ("limit big", ("limit", t, ("big",))),
    ("skip 1", ("skip", t, ("v", 1))), ("skip 0", ("skip", t, ("v", 0))),
    ("map inc", ("map", t, "inc")), ("filter even", ("filter", t, "even")),
  ]


_READS = ("take rest", "take rest+1", "take 1", "take()", "take inf", "for 2", "list")


def lifecycle(tier, shard, nshards):
  """Every history of up to 3 steps (and every 4-step history stage-read-stage-read /
  stage-stage-read-stage / ...: see below) on ONE stream object, with no invariant peek in
  between: the object's iterator stays the very object the previous step left."""
  sources = [
    (("list", [10, 11, 12, 13]), [], 0),
    (("gen", [10, 11, 12]), [], 0),
    (("per", [1, 2, 3]), [], 0),
    (("list", [10, 11, 12]), [("copy", 0, None)], 1),                       # a copy
    (("gen", [10, 11, 12, 13]), [("hub", 0, 2), ("use", 0, "Stream")], 1),   # one use of a thub
    (("endless", [4, 5]), [], 0),
  ]
  if tier != "quick":
    sources += [(("list", []), [], 0), (("iter", [10, 11, 12, 13, 14, 15]), [("tee", 0, 2)], 1),
                (("box:str", ["a", "b", "c"]), [], 0)]
  i = 0
  for spec, pre, t in sources:
    abc = _alphabet(t)
    steps1 = [[b] for _, b in abc]
    steps2 = [[a, b] for _, a in abc for _, b in abc]
    steps3 = [[a, b, c] for _, a in abc for _, b in abc for _, c in abc]
    # 4 steps: two reads and two stages in any order (quick); anything around a read (thorough)
    rd = [b for nm, b in abc if nm in _READS]
    stg = [b for nm, b in abc if nm not in _READS and nm not in ("peek 2", "copy")]
    every = [b for _, b in abc]
    if tier == "quick":
      shapes = [(stg, rd, stg, rd), (stg, stg, rd, stg), (rd, stg, rd, stg)] if spec[0] in ("list", "per") and not pre else []
    else:
      shapes = [(every, stg, rd, stg), (stg, rd, stg, every), (stg, rd, rd, stg), (rd, stg, rd, stg)]
    steps4 = ([a, b, c, d] for sh in shapes for a in sh[0] for b in sh[1] for c in sh[2] for d in sh[3])
    for group in (steps1, steps2, steps3, steps4):
      for steps in group:
        i += 1
        if i % nshards != shard:
          continue
        yield dict(init=[spec], steps=[list(x) for x in pre] + steps, inv="end", drain=[])


CLAUSES = [
  Clause("history", strat_history, run_history, quick=4000, thorough=36000,
         floors={"short take": .12, "interleaved copies": .12, "hub exhausted": .05,
                 "periodic": .1, "hub use": .05, "n:None": .05, "short skip": .02,
                 "short limit": .015, "StopIteration": .1,
                 "n:next to a half, decisive": .02, "n:next to an integer": .01,
                 "cut:next to a half": .03, "hub peek repeated alike": .05,
                 "box source": .1, "hub of text": .015, "item:-0.0": .03, "item:nan": .02,
                 "period of equal but different items": .015, "period of signed zeros": .006,
                 "stage right after a consuming read": .01,
                 "n:beyond sys.maxsize": .006, "cut:beyond sys.maxsize": .008},
         doc="general histories over a pool of streams and thubs vs the list model"),
  Clause("copies", strat_copies, run_history, quick=2000, thorough=16000,
         floors={"interleaved copies": .2, "tee": .1, "thub": .1,
                 "n:next to a half, decisive": .02, "period of signed zeros": .002, "box source": .05},
         doc="one source, copies/tee/thub made early, consumption interleaved between them"),
  Clause("hub", strat_hub, run_history, quick=1500, thorough=10000,
         floors={"hub exhausted": .3, "hub use": .2, "hub exhausted inside the history": .1,
                 "hub peek": .02, "hub copy": .03, "n:next to a half, decisive": .02,
                 "hub peek repeated alike": .08, "hub advanced for every use": .08,
                 "hub of a box": .06, "hub of text": .02},
         doc="thub histories: exactly n uses of every kind, peek/copy use none, IndexError after"),
  Clause("deep", strat_deep, run_deep, quick=160, thorough=1200,
         floors={"read through %d+ stages" % DEEP: .5, "deep:map": .12, "deep:filter": .04,
                 "deep:limit": .06, "deep:skip": .04, "deep:append": .06,
                 "interleaved copies": .2, "hub use": .1},
         doc="histories thousands of steps long: the same 1-2 in-place stages (map filter skip limit append), "
             "with or without a small read in between, stacked 2600..4000 (thorough ..6000) times on one stream "
             "that may have copies or be one use of a thub, then read"),
  Enumerated("counts", grid, run_history, shards={"quick": 4, "thorough": 8},
             floors={"n:beyond sys.maxsize": .01, "cut:beyond sys.maxsize": .015},
             doc="every (source kind, length, consumed prefix, take/peek/skip/limit, count) in a small box, plain and behind a filter/map stage"),
  Enumerated("lifecycle", lifecycle, run_history, shards={"quick": 6, "thorough": 12},
             floors={"stage right after a consuming read": .2, "append to a stream read past its end": .02,
                     "stage on a stream read past its end": .05},
             doc="every history of <= 3 steps (4 around reads) on one stream object - a fresh stream, a copy, a thub use - "
                 "from 20 single steps (reads short of / up to / past the end, peek, copy, every in-place stage), "
                 "compared only at the end: no peek of the harness comes between a read and the next stage"),
]
