"""C09 - Overlap-add is the windowed hop-shifted sum and inverts blocking."""
import math
from collections import deque
from fractions import Fraction as F
from hypothesis import strategies as st
from vlib.core import Clause, Violation
from vlib.q import Q

from audiolazy import overlap_add, stft, Stream, blocks, window, wsymm

ID = "C09"
RULE = ("cases = (size, hop <= size, m blocks of exact rationals, block container kind, window "
        "kind (list, tuple, generator, Stream, iterator, function, callable object that is also iterable, "
        "the window / wsymm strategy dictionaries themselves) and values incl. negative and zero entries, "
        "normalise on/off/default, size given or detected) for overlap_add.list; signals blocked by Stream.blocks and overlap-added with "
        "windows built to sum to one under hop shifts; stft wrappers with generated option "
        "splits, calling styles and pure-Python stages, the overlap-add given as ola= or taken from "
        "overlap_add.default set before or after the processor is built; stage chains whose intermediate "
        "values are of any kind (sparse dicts, scalars, per-block measures, falsy or truth-less block "
        "objects) over signals with runs of zeros; oracle = ola_ref (the defining sum with "
        "the stated gain, in Fractions), reconstruction equality on fully covered samples, and "
        "the recorded wiring (blocks seen by the user function, stage order, kwargs reaching the "
        "overlap-add); samples that are not Q: plain Fractions, ints beyond 2**53, small ints and mixtures "
        "(ola_plain, and a share of the cola / stft signals), with no window and no normalisation, or with "
        "plain rational / integer windows, where every sample past the first size-hop must come back as the "
        "exact sum; the normalise flag also as 1 / 0; the stft input as list, tuple, deque, Stream, generator or "
        "iterator, the synthesis window (ola_wnd) in every window kind incl. one-shot iterators, ola_normalize "
        "False / True / not given, and the whole stft output compared with ola_ref of the processed blocks; "
        "clause together: 2-4 jobs (direct calls and stft processors with the real overlap_add.list) of one size "
        "and hop in one process, windows of Q / Fraction / float / int values incl. twins (the same absolute "
        "values in another type, other signs), started up front or at first use and consumed by a generated "
        "schedule (nested, in turns, one after the other), every result compared with ola_ref of its own "
        "arguments; non-trivial = at least 2 blocks and hop < size (ola_plain: at least 2 blocks and a "
        "sample no double can hold); together: two overlapping results alive at once or an exact window after an equal window of floats; "
        "distinct = distinct case hash")
ASSUMPTIONS = [
  "samples and window values are Q (exact); the no-window normalisation gain is the double 1/ceil(size/hop) computed by the code and is taken at its exact binary value",
  "only the pure-Python strategy overlap_add.list is exercised (numpy is not installed); stft gets ola=overlap_add.list or a recording wrapper of it, or no ola= with overlap_add.default set to that recording wrapper for the duration of the case (restored afterwards)",
  "with the window / wsymm dictionaries as the window and normalisation on, the hop gain is a sum of doubles: that branch is compared with the same call given the evaluated window list; without normalisation it is compared with ola_ref on the exact values of the doubles",
  "a falsy *transform object* is not generated (the unchanged wrapper's 'transform and (lambda ...)' idiom); falsy or truth-less stage *results* are",
  "m = 0 with a given size yields the size-hop zeros of the empty sum; with a detected size the output is empty (upstream test_empty)",
  "plain (non-Q) samples: the overlap memory starts as float zeros, so the first size-hop output samples are sums that began with 0.0 + x and are floats for int / Fraction samples; those are compared within 2**-47 of the sum of the terms' magnitudes, every later sample (all of them when hop == size) by exact equality of value; no assertion on the result's type",
  "clause together: a window of floats or of ints with normalisation on, and a window of Fractions with normalisation when hop does not divide size, are divided by their gain in double arithmetic on the unchanged tree (float / float, int / int, Fraction / float): those jobs get Q samples and are compared within 2**-46 of the sum of the magnitudes of the terms; every other job (Q windows, Fraction windows otherwise, no normalisation) is compared exactly",
  "clause together and the stft clause with ola_normalize True / not given: Q samples only (the no-window gain is a double)",
  "a synthesis window that is not a list cannot be compared when it reaches the recording overlap-add strategy without reading it: that it arrived is checked there, what it was is decided by the output",
  "plain samples are combined only with what leaves them exact on the unchanged tree: no window, or a window of ints / Fractions, without normalisation; a window of Fractions with normalisation when hop divides size (the gain is then a Fraction; otherwise the code pads the hop-strided sums with float zeros); not the no-window normalisation (a double gain) and not int windows with normalisation (int / int is Python's float division)",
]

qv = st.fractions(min_value=-3, max_value=3, max_denominator=5).map(Q)
WKINDS = ["none", "list", "tuple", "callable", "gen", "stream", "iter",
          "callable+iterable", "dict:window", "dict:wsymm"]
STRATEGY_DICTS = {"dict:window": window, "dict:wsymm": wsymm}
BKINDS = ["lists", "tuples", "gen", "stream", "deques", "iters"]


def ola_ref(blks, size, hop, wnd, normalize):
  m = len(blks)
  L = m * hop + size - hop
  if wnd is None:
    w = [F(1)] * size
    g = F(1.0 / math.ceil(F(size, hop))) if normalize else F(1)
  else:
    w = [F(v) for v in wnd]
    g = F(1)
    if normalize:
      gain = max(sum(abs(w[i + j * hop]) for j in range(-(-size // hop)) if i + j * hop < size)
                 for i in range(hop))
      if gain:
        g = 1 / F(gain)
  out = [F(0)] * L
  for k, B in enumerate(blks):
    for i in range(size):
      out[k * hop + i] += g * w[i] * F(B[i])
  return out


# ------------------------------------------------------------------ plain (non-Q) samples
# Q absorbs a float operand exactly, so a needless "x * 1.0" or "x + 0.0" is invisible on Q samples.
# A plain Fraction or an int beyond 2**53 turns into a rounded float on contact with a float.
BIG = 2 ** 53
SKINDS = ["Fraction", "big int", "small int", "mixed"]
pfrac = st.fractions(min_value=-3, max_value=3, max_denominator=9)
pbig = st.one_of(st.integers(BIG + 1, BIG + 400), st.integers(-BIG - 400, -BIG - 1),
                 st.sampled_from([2 ** 64 + 1, -(10 ** 17 + 1), 3 ** 40, 2 ** 53 + 1, -(2 ** 53) - 1, 2 ** 80 - 1]),
                 st.integers(-2 ** 70, 2 ** 70))
psmall = st.integers(-5, 5)
PSAMPLES = {"Fraction": pfrac, "big int": pbig, "small int": psmall,
            "mixed": st.one_of(pfrac, pbig, psmall)}


def holds_in_double(v):
  """Whether a double can hold the (exact) value v."""
  try:
    return F(float(v)) == F(v)
  except OverflowError:
    return False


def to_plain(q, skind, i):
  """A Q sample of the cola / stft strategies (range [-3, 3], denominators up to 5) as a plain value:
  skind 'Fraction' -> the same value as a fractions.Fraction (every third one moved up by 2**54 + 1/7);
  'big int' -> an odd int beyond 2**53; 'Q' -> unchanged."""
  if skind == "Fraction":
    return F(q) + (F(2 ** 54) + F(1, 7) if i % 3 == 2 else 0)
  if skind == "big int":
    return (BIG + 1 + 2 * int(q * 60)) * (-1 if i % 4 == 3 else 1)
  return q


def check_plain(got, blks, size, hop, wnd, normalize, what):
  """got against the defining sum for samples that are not Q.  The unchanged code's overlap memory
  starts as size float zeros: the first size-hop output samples are 0.0 + B_0[n] + B_1[n-h] + ...,
  floats whenever the samples are ints / Fractions (each step rounds); these are held to 2**-47 of the
  sum of the magnitudes of the terms.  Every later sample saw no float at all and must equal the sum."""
  exp = ola_ref(blks, size, hop, wnd, normalize)
  mag = ola_ref([[abs(F(v)) for v in b] for b in blks], size, hop,
                None if wnd is None else [abs(F(v)) for v in wnd], normalize)
  if len(got) != len(exp):
    raise Violation("%d samples, expected m*h+size-h = %d (m=%d size=%d hop=%d; %s)"
                    % (len(got), len(exp), len(blks), size, hop, what))
  s_h = size - hop
  for n, (g, e) in enumerate(zip(got, exp)):
    if isinstance(g, complex) or g != g:
      raise Violation("out[%d] = %r (%s)" % (n, g, what))
    if n < s_h:
      ok = abs(F(g) - e) <= mag[n] / 2 ** 47
    else:
      ok = (g == e)
    if not ok:
      raise Violation("out[%d] = %r (%s), expected %s%s: the sum of the blocks' samples %r (size=%d hop=%d, %s)"
                      % (n, g, type(g).__name__, "about " if n < s_h else "exactly ", e,
                         [B[n - k * hop] for k, B in enumerate(blks) if 0 <= n - k * hop < size],
                         size, hop, what))


# ------------------------------------------------------------------ ola on plain samples
def strat_ola_plain(tier):
  smax = 8 if tier == "quick" else 12

  def rest(k):
    size, hop, skind = k
    pv = PSAMPLES[skind]
    blk = st.lists(pv, min_size=size, max_size=size)
    return st.fixed_dictionaries(dict(
      size=st.just(size), hop=st.just(hop), skind=st.just(skind),
      blks=st.one_of(st.lists(blk, max_size=6), st.lists(blk, min_size=2, max_size=6)),
      # (normalisation sums the window in hop-sized blocks that the code pads with float zeros when hop
      #  does not divide size: the gain is then a float; exact samples stay exact only when hop | size)
      mode=st.sampled_from(["no window, no normalise", "no window, no normalise", "no window, no normalise",
                            "window, no normalise",
                            "Fraction window, normalise" if size % hop == 0 else "window, no normalise"]),
      wkind=st.sampled_from(["list", "tuple", "callable", "gen", "stream", "iter", "callable+iterable"]),
      wv=st.lists(st.one_of(pfrac, pfrac, st.integers(-3, 3)), min_size=size, max_size=size),
      bkind=st.sampled_from(BKINDS), detect=st.booleans(), hop_default=st.booleans()))
  return st.integers(1, smax).flatmap(
    lambda s: st.tuples(st.just(s), st.sampled_from(["lt", "lt", "eq"]).flatmap(
      lambda r: st.just(s) if r == "eq" or s == 1 else st.integers(1, s - 1)),
      st.sampled_from(SKINDS))).flatmap(rest)


def run_ola_plain(c):
  """No window and no normalisation: g = 1 and nothing multiplies the samples - out[n] is the plain sum
  of the blocks' samples, also for samples that only stay exact as long as no float touches them."""
  size, hop, blks, mode = c["size"], c["hop"], c["blks"], c["mode"]
  m = len(blks)
  norm = mode == "Fraction window, normalise"
  kw = {"normalize": norm}
  wv = None
  if mode != "no window, no normalise":
    wv = [F(v) for v in c["wv"]] if norm else list(c["wv"])
    kw["wnd"] = mk_window(c["wkind"], wv)
  detect = c["detect"]
  if not detect:
    kw["size"] = size
  if not (c["hop_default"] and hop == size):
    kw["hop"] = hop
  bkind = "lists" if detect and c["bkind"] == "iters" else c["bkind"]
  out = overlap_add.list(mk_blocks(bkind, blks), **kw)
  if not isinstance(out, Stream):
    raise Violation("overlap_add.list returned %s" % type(out).__name__)
  got = list(out)
  what = "%s, %s samples, %s%s" % (mode, c["skind"], "size detected" if detect else "size given",
                                   "" if wv is None else ", window %r as %s" % (wv, c["wkind"]))
  if detect and m == 0:
    if got:
      raise Violation("no blocks, detected size: output %r" % (got,))
  else:
    check_plain(got, blks, size, hop, wv, norm, what)
  delicate = any(not holds_in_double(v) for b in blks for v in b)
  labels = ["samples:" + c["skind"], mode, "blocks:" + bkind]
  if delicate:
    labels.append("a sample no double can hold")
  if detect:
    labels.append("detected size")
  if m == 0:
    labels.append("no blocks")
  labels.append("overlapping" if hop < size else "hop == size")
  if m >= 2 and hop < size and delicate:
    labels.append("delicate samples overlap")
  return {"nontrivial": m >= 2 and delicate, "labels": labels}


class CallIter(object):
  """A window function given as an object that is callable (wnd(size) -> the window) and that also
  happens to be iterable; iterating it does NOT give the window (as with the package's own
  ``window`` / ``wsymm`` strategy dictionaries, whose iteration yields their strategies)."""
  def __init__(self, wv):
    self.wv = list(wv)

  def __call__(self, n):
    return list(self.wv)

  def __iter__(self):
    return iter([v + 1 for v in reversed(self.wv)])


def mk_window(kind, wv):
  if kind == "none":
    return None
  if kind == "callable+iterable":
    return CallIter(wv)
  if kind in STRATEGY_DICTS:
    return STRATEGY_DICTS[kind]           # the dictionary object itself: calling it is calling its default
  if kind == "list":
    return list(wv)
  if kind == "tuple":
    return tuple(wv)
  if kind == "callable":
    return lambda n: list(wv)[:n] if n <= len(wv) else list(wv)
  if kind == "gen":
    return (v for v in wv)
  if kind == "stream":
    return Stream(list(wv))
  return iter(list(wv))


def mk_blocks(kind, blks):
  if kind == "lists":
    return [list(b) for b in blks]
  if kind == "tuples":
    return tuple(tuple(b) for b in blks)
  if kind == "gen":
    return (list(b) for b in blks)
  if kind == "stream":
    return Stream([list(b) for b in blks])
  if kind == "deques":
    return [deque(b) for b in blks]
  return iter([iter(list(b)) for b in blks])


# ------------------------------------------------------------------ ola vs ola_ref
def strat_ola(tier):
  smax = 8 if tier == "quick" else 12

  def rest(sh):
    size, hop = sh
    return st.fixed_dictionaries(dict(
      size=st.just(size), hop=st.just(hop),
      blks=st.one_of(st.lists(st.lists(qv, min_size=size, max_size=size), max_size=6),
                     st.lists(st.lists(qv, min_size=size, max_size=size), min_size=2, max_size=6)),
      wkind=st.sampled_from(WKINDS), wv=st.lists(qv, min_size=size, max_size=size),
      wshape=st.sampled_from(["free", "free", "nonneg", "zeros", "ones"]),
      bkind=st.sampled_from(BKINDS),
      norm=st.sampled_from([True, False, "default"]), norm_as=st.sampled_from(["bool", "bool", "int"]),
      detect=st.booleans(), hop_default=st.booleans()))
  return st.integers(1, smax).flatmap(
    lambda s: st.tuples(st.just(s), st.sampled_from(["lt", "lt", "lt", "eq"]).flatmap(
      lambda r: st.just(s) if r == "eq" or s == 1 else st.integers(1, s - 1)))).flatmap(rest)


def run_ola(c):
  size, hop, blks = c["size"], c["hop"], c["blks"]
  wv = list(c["wv"])
  if c["wshape"] == "nonneg":
    wv = [abs(v) for v in wv]
  elif c["wshape"] == "zeros":
    wv = [Q(0)] * size
  elif c["wshape"] == "ones":
    wv = [Q(1)] * size
  sdict = STRATEGY_DICTS.get(c["wkind"])
  if sdict is not None:
    wv = [Q(v) for v in sdict.default(size)]     # the doubles of the dictionary's default window, exactly
  m = len(blks)
  detect = c["detect"]
  kw = {}
  if not detect:
    kw["size"] = size
  if not (c["hop_default"] and hop == size):
    kw["hop"] = hop
  if c["norm"] != "default":
    # the flag is "on" for any true value and "off" for any false one: 1 / 0 are the usual other spelling
    kw["normalize"] = int(c["norm"]) if c.get("norm_as") == "int" else c["norm"]
  norm = True if c["norm"] == "default" else c["norm"]
  stored = None
  if c["wkind"] != "none":
    kw["wnd"] = mk_window(c["wkind"], wv)
    if c["wkind"] == "list":
      stored = kw["wnd"]
    elif c["wkind"] == "callable" and c["hop_default"]:
      stored = list(wv)                      # a window function that hands out its own stored list
      kw["wnd"] = lambda n, stored=stored: stored
  if detect and c["bkind"] == "iters":
    bkind = "lists"          # size detection needs len(block)
  else:
    bkind = c["bkind"]
  out = overlap_add.list(mk_blocks(bkind, blks), **kw)
  if not isinstance(out, Stream):
    raise Violation("overlap_add.list returned %s" % type(out).__name__)
  got = list(out)
  if detect and m == 0:
    exp = []
  elif sdict is not None and norm:
    # the hop gain of a window of doubles is a double sum: compared with the same call given the
    # evaluated window as a plain list (a window function is, by definition, its wnd(size) list)
    exp = list(overlap_add.list([list(b) for b in blks], size=size, hop=hop,
                                wnd=[float(v) for v in wv], normalize=True))
  else:
    exp = ola_ref(blks, size, hop, None if c["wkind"] == "none" else wv, norm)
  if len(got) != len(exp):
    raise Violation("%d samples, expected m*h+size-h = %d (m=%d size=%d hop=%d kw=%r)"
                    % (len(got), len(exp), m, size, hop, sorted(kw)))
  for n, (g, e) in enumerate(zip(got, exp)):
    if not (g == e):
      raise Violation("out[%d] = %r, expected %r (m=%d size=%d hop=%d window=%s %r normalize=%r detect=%r) got=%r"
                      % (n, g, e, m, size, hop, c["wkind"], wv, kw.get("normalize", "not given"), detect, got))
  if stored is not None and stored != list(wv):
    raise Violation("overlap_add.list modified the caller's window list: %r is now %r (normalize=%r)"
                    % (list(wv), stored, c["norm"]))
  labels = ["window:" + c["wkind"], "blocks:" + bkind, "normalize:%s" % c["norm"]]
  if c["norm"] != "default" and c.get("norm_as") == "int":
    labels.append("normalize given as 1 / 0")
    if c["norm"]:
      labels.append("normalize=1")
  if stored is not None:
    labels.append("caller keeps the window list")
  if sdict is not None:
    labels.append("window is a strategy dictionary")
  if detect:
    labels.append("detected size")
  if m == 0:
    labels.append("no blocks")
  if hop < size:
    labels.append("overlapping")
  if c["wkind"] != "none" and any(v < 0 for v in wv):
    labels.append("negative window entries")
  return {"nontrivial": m >= 2 and hop < size, "labels": labels}


# ------------------------------------------------------------------ refusals
def strat_bad(tier):
  return st.fixed_dictionaries(dict(
    size=st.integers(1, 5), hopd=st.integers(0, 4), m=st.integers(1, 3),
    what=st.sampled_from(["window too short", "window too long", "block too short", "block too long",
                          "window not iterable"]),
    val=qv, at=st.integers(0, 2), norm=st.booleans()))


def run_bad(c):
  size = c["size"]
  hop = max(1, size - c["hopd"])
  blks = [[c["val"] + i + k for i in range(size)] for k in range(c["m"])]
  wv = [Q(1, 2)] * size
  kw = dict(size=size, hop=hop, normalize=c["norm"])
  what = c["what"]
  if what == "window too short":
    if size == 1:
      return {"nontrivial": False, "labels": ["skipped"]}
    kw["wnd"] = wv[:-1]
  elif what == "window too long":
    kw["wnd"] = wv + [Q(1)]
  elif what == "window not iterable":
    kw["wnd"] = 3
  elif what == "block too short":
    if size == 1:
      return {"nontrivial": False, "labels": ["skipped"]}
    blks[c["at"] % len(blks)] = blks[c["at"] % len(blks)][:-1]
    kw["wnd"] = wv
  else:
    blks[c["at"] % len(blks)] = blks[c["at"] % len(blks)] + [Q(9)]
    kw["wnd"] = wv
  exp = TypeError if what == "window not iterable" else ValueError
  try:
    got = list(overlap_add.list(blks, **kw))
  except exp:
    return {"nontrivial": True, "labels": [what]}
  raise Violation("%s accepted: size=%d hop=%d -> %r" % (what, size, hop, got))


# ------------------------------------------------------------------ COLA reconstruction
def cola_window(segs, hop, nonneg):
  """R-1 free segments; the last makes every hop-strided sum equal one."""
  if nonneg:
    R = len(segs) + 1
    segs = [[abs(v) / (3 * R) for v in s] for s in segs]
  last = [1 - sum(s[i] for s in segs) for i in range(hop)]
  return [v for s in segs + [last] for v in s]


def strat_cola(tier):
  def rest(hr):
    hop, R = hr
    return st.fixed_dictionaries(dict(
      hop=st.just(hop), R=st.just(R),
      segs=st.lists(st.lists(qv, min_size=hop, max_size=hop), min_size=R - 1, max_size=R - 1),
      sig=st.one_of(st.lists(qv, max_size=12),
                    st.lists(qv, min_size=hop * R + hop, max_size=40 if tier == "quick" else 80)),
      mode=st.sampled_from(["window, no normalise", "nonneg window, normalise", "no window, normalise",
                            "no window, no normalise (hop=size)"]),
      skind=st.sampled_from(["Q", "Q", "Fraction", "big int"]),
      via=st.sampled_from(["Stream.blocks", "blocks()", "lists"])))
  return st.tuples(st.integers(1, 4), st.sampled_from([1, 2, 2, 3, 3, 4])).flatmap(rest)


def run_cola(c):
  hop, R, sig = c["hop"], c["R"], c["sig"]
  size = hop * R
  mode = c["mode"]
  # plain samples wherever no float is due: a fully covered sample lies past the first size-hop, and
  # the windows below are plain rationals then (the no-window normalisation gain is a double: Q only)
  skind = c.get("skind", "Q") if mode != "no window, normalise" else "Q"
  sig = [to_plain(v, skind, i) for i, v in enumerate(sig)]
  pl = (lambda w: [F(v) for v in w]) if skind != "Q" else (lambda w: w)
  if mode == "no window, no normalise (hop=size)":
    hop, R = size, 1
  if c["via"] == "Stream.blocks":
    blk = Stream(list(sig)).blocks(size=size, hop=hop)
  elif c["via"] == "blocks()":
    blk = blocks(iter(list(sig)), size=size, hop=hop)
  else:
    blk = [list(b) for b in blocks(list(sig), size=size, hop=hop)]
  scale = F(1)
  if mode == "window, no normalise":
    w = pl(cola_window(c["segs"], hop, False))
    out = overlap_add.list(blk, size=size, hop=hop, wnd=w, normalize=False)
  elif mode == "nonneg window, normalise":
    w = pl(cola_window(c["segs"], hop, True))
    out = overlap_add.list(blk, size=size, hop=hop, wnd=w, normalize=True)
  elif mode == "no window, normalise":
    out = overlap_add.list(blk, size=size, hop=hop)
    scale = R * F(1.0 / R)      # R copies of the double 1/R: exactly one when R is a power of two
  else:
    out = overlap_add.list(blk, size=size, hop=hop, normalize=False)
  got = list(out)
  N = len(sig)
  nb = 0
  while nb * hop + size <= N:
    nb += 1
  if N - nb * hop > max(size - hop, 0):
    nb += 1
  if len(got) != nb * hop + size - hop:
    raise Violation("length %d, expected %d (N=%d size=%d hop=%d)" % (len(got), nb * hop + size - hop, N, size, hop))
  covered = 0
  for n in range(N):
    cov = [k for k in range(nb) if 0 <= n - k * hop < size]
    if len(cov) == R:
      covered += 1
      if not (got[n] == scale * F(sig[n])):
        raise Violation("sample %d reconstructed as %r, signal has %r (scale %r; size=%d hop=%d mode=%s)"
                        % (n, got[n], sig[n], scale, size, hop, mode))
  labels = [mode, "R=%d" % R, "via:" + c["via"], "samples:" + skind]
  if skind != "Q" and mode.startswith("no window, no normalise") and covered:
    labels.append("plain samples, no window, no normalise")
  return {"nontrivial": nb >= 2 and R >= 2 and covered >= 2, "labels": labels}


# ------------------------------------------------------------------ STFT wrapper
def strat_stft(tier):
  def rest(hr):
    hop, R = hr
    size = hop * R
    return st.fixed_dictionaries(dict(
      hop=st.just(hop), R=st.just(R),
      segs=st.lists(st.lists(qv, min_size=hop, max_size=hop), min_size=R - 1, max_size=R - 1),
      sig=st.one_of(st.lists(qv, max_size=8), st.lists(qv, min_size=hop * R + hop, max_size=24)),
      window_at=st.sampled_from(["analysis", "ola", "none"]),
      wkind=st.sampled_from(["list", "tuple", "callable", "gen", "stream", "iter", "callable+iterable"]),
      onorm=st.sampled_from(["False", "False", "not given", "True"]),
      sigkind=st.sampled_from(["list", "list", "tuple", "generator", "Stream", "deque", "iterator"]),
      ola_via=st.sampled_from(["ola=", "ola=", "default set before build", "default set after build"]),
      style=st.sampled_from(["direct", "decorator", "partial", "partial2"]),
      split=st.lists(st.booleans(), min_size=8, max_size=8),
      stages=st.sampled_from(["none", "reverse pair", "scale pair", "all four", "before only"]),
      skind=st.sampled_from(["Q", "Q", "Fraction", "big int"]),
      hop_given=st.booleans()))
  return st.tuples(st.integers(1, 3), st.sampled_from([1, 2, 2, 3, 3])).flatmap(rest)


def run_stft(c):
  saved_default = overlap_add.default
  try:
    return _run_stft(c)
  finally:
    overlap_add.default = saved_default


def _run_stft(c):
  hop, R, sig = c["hop"], c["R"], c["sig"]
  size = hop * R
  w = cola_window(c["segs"], hop, False)
  # plain signals (Fractions, ints beyond 2**53) get a plain rational window: nothing in the wrapper or
  # in the overlap-add without normalisation brings in a float, except the float zeros the overlap
  # memory starts with (first size-hop samples) and the zero padding of the last block
  skind = c.get("skind", "Q")
  if skind != "Q":
    w = [F(v) for v in w]
    sig = [to_plain(v, skind, i) for i, v in enumerate(sig)]
    if skind == "big int" and c["stages"] in ("scale pair", "all four"):
      sig = [F(v) for v in sig]       # the 'after' stage halves: int / 2 is Python's float division
  log = []
  seen = []
  ola_kw = []

  def func(blk):
    seen.append(list(blk))
    log.append("func")
    return blk

  EXTRA = ("alpha", "offset", "length", "_x", "gain", "ola", "a")

  def rec_ola(blks, **kw):
    ola_kw.append(dict(kw))
    return overlap_add.list(blks, **{k: v for k, v in kw.items() if k not in EXTRA})

  def stale_ola(blks, **kw):
    raise Violation("no ola= given: the processor overlap-added with the strategy that was overlap_add.default "
                    "when it was built, not with the default in force when it is used (received %r)" % (sorted(kw),))

  def t_rev(blk, n):
    log.append("transform")
    if n != size:
      raise Violation("transform called with size %r" % (n,))
    return list(blk)[::-1]

  def it_rev(blk, n):
    log.append("inverse")
    if n != size:
      raise Violation("inverse_transform called with size %r" % (n,))
    return list(blk)[::-1]

  def b_scale(blk):
    log.append("before")
    return [2 * v for v in blk]

  def a_scale(blk):
    log.append("after")
    return [v / 2 for v in blk]

  class Falsy(object):
    """A stage given as a callable *object* whose truth value is False (it defines __len__)."""
    def __init__(self, f):
      self.f = f

    def __call__(self, *a):
      return self.f(*a)

    def __len__(self):
      return 0
  falsy_stages = c["split"][2] and not c["split"][5]
  if falsy_stages:
    # (not the transform pair: the unchanged wrapper builds "transform and (lambda ...)", so a falsy
    #  transform object is called without the size argument - outside what the property states)
    func, b_scale, a_scale = Falsy(func), Falsy(b_scale), Falsy(a_scale)
  opts = {"size": size, "ola": rec_ola, "transform": None, "inverse_transform": None,
          "before": None, "after": None}
  # without ola= the wrapper uses "the overlap_add default strategy": the settable attribute
  # overlap_add.default, as it stands when the processor is used (numpy is absent here, so a program
  # has to select another default; it may do so before or after building its processors)
  via = c["ola_via"]
  if via != "ola=":
    del opts["ola"]
  expect_order = ["func"]
  st_ = c["stages"]
  if st_ in ("reverse pair", "all four"):
    opts["transform"], opts["inverse_transform"] = t_rev, it_rev
    expect_order = ["transform", "func", "inverse"]
  if st_ in ("scale pair", "all four"):
    opts["before"], opts["after"] = b_scale, a_scale
    expect_order = ["before"] + expect_order + ["after"]
  if st_ == "before only":
    opts["before"] = b_scale
    expect_order = ["before", "func"]
  hop_eff = hop
  if c["hop_given"] or hop != size:
    opts["hop"] = hop
  # normalisation is the overlap-add's own business: the wrapper passes ola_normalize on when it is
  # given and passes nothing when it is not (the strategy then normalises, as it does by default)
  onorm = c.get("onorm", "False") if skind == "Q" else "False"
  expect_ola = {"size": size, "hop": opts.get("hop")}
  if onorm != "not given":
    opts["ola_normalize"] = expect_ola["normalize"] = (onorm == "True")
  norm_eff = onorm != "False"
  if norm_eff:
    w = [Q(v) for v in w]     # (R = 1 builds a window of plain ints; int / int gain is a float division)
  # options of a user-supplied overlap-add strategy: the prefix is removed, nothing else
  for i, name in enumerate(EXTRA):
    if c["split"][(i + 2) % 8] and c["split"][(i + 5) % 8]:
      # (an explicit None is a value like any other: it is passed on, not treated as "unset")
      opts["ola_" + name] = None if i % 3 == 1 else i
      expect_ola[name] = None if i % 3 == 1 else i
  # the overlap-add may be given its own size / hop (synthesis hop different from the analysis hop)
  own_hop = None
  if c["split"][1] and c["split"][6] and size > 1:
    own_hop = 1 if hop != 1 else size
    opts["ola_hop"] = own_hop
    expect_ola["hop"] = own_hop
  if c["window_at"] == "analysis":
    opts["wnd"] = mk_window(c["wkind"], w)
  elif c["window_at"] == "ola":
    # the synthesis window comes in the same kinds as any window (a generator can be used once: it
    # has to reach the overlap-add unread)
    opts["ola_wnd"] = list(w) if c["wkind"] == "list" else mk_window(c["wkind"], w)
    expect_ola["wnd"] = list(w)
  # split the options between build time and call time
  names = sorted(opts)
  build = {k: opts[k] for i, k in enumerate(names) if c["split"][i % 8]}
  call = {k: opts[k] for k in names if k not in build}
  override = c["split"][7] and c["split"][0] != c["split"][3]
  if override:
    # a call-time option replaces the build-time setting of the same name
    build["size"] = size + 3
    call["size"] = size
    if onorm != "not given":
      build["ola_normalize"] = not opts["ola_normalize"]
      call["ola_normalize"] = opts["ola_normalize"]
  style = c["style"]
  def sibling(partial):
    # something else derived first from the same partial, with keywords of its own, must leave the
    # partial as it was (its keywords must not leak into what is derived next)
    partial(lambda blk: blk, wnd=[Q(9)] * size, hop=size, ola_normalize=True, ola_wnd=[Q(7)] * size)
    partial(wnd=[Q(5)] * size)
  if via == "default set before build":
    overlap_add.default = rec_ola
  elif via == "default set after build":
    overlap_add.default = stale_ola
  if style == "direct":
    proc = stft(func, **build)
  elif style == "decorator":
    deco = stft(**build)
    if c["split"][4]:
      sibling(deco)
    proc = deco(func)
  elif style == "partial":
    half = {k: build[k] for k in sorted(build)[::2]}
    other = {k: build[k] for k in build if k not in half}
    first = stft(**half)
    if c["split"][4]:
      sibling(first)
    proc = first(**other)(func)
  else:
    # later settings override earlier ones
    proc = stft(size=size + 5, **{k: v for k, v in build.items() if k != "size"})(func, size=size) \
      if "size" in build else stft(**build)(func)
  if via == "default set after build":
    overlap_add.default = rec_ola
  sigkind = c.get("sigkind", "list")
  out = proc(mk_signal(sigkind, sig), **call)
  if not isinstance(out, Stream):
    raise Violation("stft wrapper returned %s" % type(out).__name__)
  got = list(out)
  # --- wiring
  blks = [list(b) for b in blocks(list(sig), size=size, hop=hop_eff)]
  nb = len(blks)
  per_block = [log[i:i + len(expect_order)] for i in range(0, len(log), len(expect_order))]
  if len(seen) != nb or per_block != [expect_order] * nb:
    raise Violation("stage calls %r, expected %d x %r" % (log, nb, expect_order))
  for k, (s, b) in enumerate(zip(seen, blks)):
    exp = [wi * bi for wi, bi in zip(w, b)] if c["window_at"] == "analysis" else list(b)
    if "before" in expect_order:
      exp = [2 * v for v in exp]
    if "transform" in expect_order:
      exp = exp[::-1]
    if s != exp:
      raise Violation("user function saw block %d as %r, expected window x block = %r" % (k, s, exp))
  if len(ola_kw) != 1:
    raise Violation("overlap-add called %d times" % len(ola_kw))
  got_kw = dict(ola_kw[0])
  if c["window_at"] == "ola" and c["wkind"] != "list" and "wnd" in got_kw:
    # a window that is not a list (function, generator, Stream ...): the output below tells whether
    # what arrived was that window
    got_kw["wnd"] = expect_ola["wnd"]
  if got_kw != expect_ola:
    raise Violation("overlap-add received %r, expected %r" % (ola_kw[0], expect_ola))
  # --- the output is the overlap-add of the processed blocks, with the overlap-add's own options
  factor = 2 if st_ == "before only" else 1
  more = ["signal:" + sigkind]
  if onorm != "False":
    more.append("ola_normalize " + ("not given" if onorm == "not given" else "True"))
  if c["window_at"] == "ola":
    more.append("synthesis window as " + c["wkind"])
    if c["wkind"] in ("gen", "iter"):
      more.append("synthesis window is a one-shot iterator")
  if sigkind in ("generator", "iterator"):
    more.append("signal is a one-shot iterator")
  if skind == "Q":
    pblks = [[factor * (wi * bi if c["window_at"] == "analysis" else bi) for wi, bi in zip(w, b)] for b in blks]
    hop_ola = own_hop if own_hop is not None else hop
    exp_full = ola_ref(pblks, size, hop_ola, w if c["window_at"] == "ola" else None, norm_eff)
    if len(got) != len(exp_full) or any(not (g == e) for g, e in zip(got, exp_full)):
      raise Violation("stft output %r, expected %r: the overlap-add (hop %d, window %r, normalize %s) of the "
                      "processed blocks %r (size=%d hop=%d, window at %s given as %s, style %s, signal given as %s)"
                      % (got, exp_full, hop_ola, w if c["window_at"] == "ola" else None,
                         "not given" if onorm == "not given" else norm_eff, pblks, size, hop, c["window_at"],
                         c["wkind"], style, sigkind))
  if own_hop is not None:
    return {"nontrivial": nb >= 2, "labels": ["style:" + style, "overlap-add with its own hop",
                                               "overlap-add by " + via] + more}
  # --- reconstruction (identity processing; the scale pair cancels, 'before only' doubles)
  N = len(sig)
  if len(got) != nb * hop + size - hop:
    raise Violation("output length %d, expected %d" % (len(got), nb * hop + size - hop))
  covered = 0
  if norm_eff:
    pass          # (normalised: the whole output was compared above; the signal comes back scaled)
  elif c["window_at"] != "none":
    for n in range(N):
      if len([k for k in range(nb) if 0 <= n - k * hop < size]) == R:
        covered += 1
        if not (got[n] == factor * sig[n]):
          raise Violation("identity STFT gives %r at %d, input %r (size=%d hop=%d window at %s, style %s)"
                          % (got[n], n, sig[n], size, hop, c["window_at"], style))
  else:
    fblks = [[factor * v for v in b] for b in blks]
    if skind != "Q":
      check_plain(got, fblks, size, hop, None, False, "windowless STFT of %s samples, style %s" % (skind, style))
    else:
      exp = ola_ref(fblks, size, hop, None, False)
      if got != exp:
        raise Violation("windowless STFT output %r, expected %r" % (got, exp))
  # --- the same processor is reusable: a second call with another window (given as a
  #     different callable, same size) must be windowed by *that* window
  labels_extra = []
  if c["window_at"] == "analysis" and c["split"][5]:
    w2 = [v + 1 for v in w]
    del seen[:], log[:], ola_kw[:]
    call2 = dict(call)
    call2["wnd"] = (lambda n: list(w2)) if c["split"][6] else list(w2)
    got2 = list(proc(mk_signal(sigkind, sig), **call2))
    for k, (s2, b) in enumerate(zip(seen, blks)):
      exp = [wi * bi for wi, bi in zip(w2, b)]
      if "before" in expect_order:
        exp = [2 * v for v in exp]
      if "transform" in expect_order:
        exp = exp[::-1]
      if s2 != exp:
        raise Violation("second call of the same processor: user function saw block %d as %r, expected the new window x block = %r"
                        % (k, s2, exp))
    if len(seen) != nb or len(got2) != len(got):
      raise Violation("second call of the same processor produced %d blocks / %d samples, first call %d / %d"
                      % (len(seen), len(got2), nb, len(got)))
    labels_extra.append("processor reused with another window")
  return {"nontrivial": nb >= 2 and R >= 2,
          "labels": labels_extra + ["style:" + style, "window at " + c["window_at"], "stages:" + st_, "overlap-add by " + via,
                     "samples:" + skind,
                     "call-time options" if call else "build-time only"] + (["call-time override"] if override else [])
                    + more}


# ------------------------------------------------------------------ STFT stages: values of any kind
class FalsyList(list):
  """A block representation whose truth value is False whatever it holds."""
  def __bool__(self):
    return False


class NoTruth(list):
  """A block representation that, like a numpy array, refuses to be used as a truth value."""
  def __bool__(self):
    raise ValueError("the truth value of a block with more than one element is ambiguous")


# name -> (encode(list of samples) -> stage result, decode(stage result, size) -> list of samples)
CODECS = {
  "sparse dict": (lambda b: {i: v for i, v in enumerate(b) if v != 0},
                  lambda x, n: [x.get(i, Q(0)) for i in range(n)]),
  "scalar": (lambda b: b[0], lambda x, n: [x]),                 # size 1: the sample itself
  "falsy list": (lambda b: FalsyList(b), lambda x, n: list(x)),
  "no truth value": (lambda b: NoTruth(b), lambda x, n: list(x)),
  "tuple": (lambda b: tuple(b), lambda x, n: list(x)),
}
# analysis only (ola=None): what the user function makes of one block
MEASURES = {
  "sum": lambda b: sum(b, Q(0)),
  "count of non-zero": lambda b: len([v for v in b if v != 0]),
  "non-zero samples": lambda b: [v for v in b if v != 0],
  "sparse dict": CODECS["sparse dict"][0],
  "any non-zero": lambda b: any(v != 0 for v in b),
}
zq = st.sampled_from([Q(0), Q(0), Q(0), Q(1), Q(-1), Q(1, 2), Q(-1, 2), Q(2)])


def strat_values(tier):
  def rest(k):
    where, kind, hop, R = k
    if kind == "scalar":
      hop = R = 1
    size = hop * R
    return st.fixed_dictionaries(dict(
      where=st.just(where), hop=st.just(hop), R=st.just(R),
      kind=st.sampled_from(sorted(MEASURES)) if where == "analysis only" else st.just(kind),
      sig=st.one_of(st.lists(qv, min_size=1, max_size=24), st.lists(zq, min_size=1, max_size=24)),
      zruns=st.lists(st.tuples(st.integers(0, 20), st.integers(1, 2 * size + 2)), max_size=2),
      wnd=st.one_of(st.none(), st.lists(zq, min_size=size, max_size=size)),
      wkind=st.sampled_from(["list", "callable", "callable+iterable"]),
      at_call=st.booleans()))
  return st.tuples(st.sampled_from(["transform pair", "before/after pair", "func/inverse pair", "analysis only"]),
                   st.sampled_from(sorted(CODECS)), st.integers(1, 3), st.sampled_from([1, 2, 2, 3])).flatmap(rest)


def _same(a, b):
  return type(a) is type(b) and a == b


def run_values(c):
  hop, R, where, kind = c["hop"], c["R"], c["where"], c["kind"]
  size = hop * R
  sig = list(c["sig"])
  for start, n in c["zruns"]:
    for i in range(start, min(start + n, len(sig))):
      sig[i] = Q(0)
  w = c["wnd"]
  blks = [list(b) for b in blocks(list(sig), size=size, hop=hop)]
  wblks = [[wi * bi for wi, bi in zip(w, b)] for b in blks] if w is not None else blks
  nb = len(blks)
  received = []               # (stage, what it was called with), in call order

  def note(stage, x, first=False):
    # the first stage gets the block in whatever sequence type the wrapper uses; later ones get the
    # very value the stage before them returned
    received.append((stage, list(x) if first else (type(x)(x) if isinstance(x, (dict, list)) else x)))

  opts = dict(size=size, hop=hop, transform=None, inverse_transform=None, before=None, after=None,
              ola=overlap_add.list, ola_normalize=False)
  if w is not None:
    opts["wnd"] = mk_window(c["wkind"], w)
  expect = []                 # the same, from the model
  if where == "analysis only":
    measure = MEASURES[kind]
    opts["ola"] = None
    del opts["ola_normalize"]

    def func(blk):
      note("func", blk, True)
      return measure(list(blk))
    results = [measure(b) for b in wblks]
    for b in wblks:
      expect.append(("func", b))
  else:
    enc, dec = CODECS[kind]
    results = [enc(b) for b in wblks]
    if where == "transform pair":
      def transform(blk, n):
        note("transform", blk, True)
        if n != size:
          raise Violation("transform called with size %r" % (n,))
        return enc(list(blk))

      def func(x):
        note("func", x)
        return x

      def inverse(x, n):
        note("inverse", x)
        return dec(x, n)
      opts["transform"], opts["inverse_transform"] = transform, inverse
      for b, r in zip(wblks, results):
        expect += [("transform", b), ("func", r), ("inverse", r)]
    elif where == "before/after pair":
      def before(blk):
        note("before", blk, True)
        return enc(list(blk))

      def func(x):
        note("func", x)
        return x

      def after(x):
        note("after", x)
        return dec(x, size)
      opts["before"], opts["after"] = before, after
      for b, r in zip(wblks, results):
        expect += [("before", b), ("func", r), ("after", r)]
    else:
      def func(blk):
        note("func", blk, True)
        return enc(list(blk))

      def inverse(x, n):
        note("inverse", x)
        return dec(x, n)
      opts["inverse_transform"] = inverse
      for b, r in zip(wblks, results):
        expect += [("func", b), ("inverse", r)]
  names = sorted(opts)
  call = {k: opts[k] for k in names[::2]} if c["at_call"] else {}
  build = {k: opts[k] for k in names if k not in call}
  out = stft(func, **build)(list(sig), **call)
  if not isinstance(out, Stream):
    raise Violation("stft wrapper returned %s" % type(out).__name__)
  got = list(out)
  if len(received) != len(expect):
    raise Violation("stage calls %r, expected %r" % ([s for s, _ in received], [s for s, _ in expect]))
  for k, ((s, x), (es, ex)) in enumerate(zip(received, expect)):
    if s != es or not _same(x, ex):
      raise Violation("stage call %d: %s received %s %r, expected %s to receive %s %r - what the stage before it "
                      "returned (%s, %s; size=%d hop=%d)"
                      % (k, s, type(x).__name__, list.__repr__(x) if isinstance(x, list) else x,
                         es, type(ex).__name__, list.__repr__(ex) if isinstance(ex, list) else ex,
                         where, kind, size, hop))
  if where == "analysis only":
    if len(got) != nb or not all(_same(g, e) for g, e in zip(got, results)):
      raise Violation("ola=None: the processor yields %r, the user function returned %r (%s)" % (got, results, kind))
  else:
    exp = ola_ref(wblks, size, hop, None, False)
    if len(got) != len(exp) or any(not (g == e) for g, e in zip(got, exp)):
      raise Violation("identity processing through %s as %s: output %r, expected the overlap-added blocks %r"
                      % (where, kind, got, exp))
  truth = []
  for r in results:
    try:
      truth.append(bool(r))
    except ValueError:
      truth.append(None)
  labels = ["where:" + where, "kind:" + kind, "window" if w is not None else "no window",
            "call-time options" if call else "build-time only"]
  if False in truth:
    labels.append("a stage result is falsy")
    if any(isinstance(r, (int, Q, dict)) or r == [] for r, t in zip(results, truth) if t is False):
      labels.append("falsy because of the data (zero / empty)")
  if None in truth:
    labels.append("a stage result has no truth value")
  return {"nontrivial": nb >= 2, "labels": labels}


def strat_stft_bad(tier):
  return st.fixed_dictionaries(dict(
    what=st.sampled_from(["unknown option", "missing size", "hop > size", "wrong window length",
                          "ola option without ola", "ola None", "window not iterable"]),
    size=st.integers(1, 4), sig=st.lists(qv, min_size=1, max_size=9), at_call=st.booleans()))


def run_stft_bad(c):
  size, sig = c["size"], c["sig"]
  base = dict(size=size, transform=None, inverse_transform=None, before=None, after=None,
              ola=overlap_add.list)
  what = c["what"]
  exp = TypeError
  extra = {}
  if what == "unknown option":
    extra = {"windowx": 3}
  elif what == "missing size":
    base.pop("size")
  elif what == "hop > size":
    extra, exp = {"hop": size + 1}, ValueError
  elif what == "wrong window length":
    extra, exp = {"wnd": [Q(1)] * (size + 1)}, ValueError
  elif what == "ola option without ola":
    base["ola"] = None
    extra = {"ola_normalize": False}
  elif what == "window not iterable":
    extra = {"wnd": 7}
  elif what == "ola None":
    base["ola"] = None
    proc = stft(lambda b: list(b), **base)
    got = [list(b) for b in proc(list(sig))]
    expb = [list(b) for b in blocks(list(sig), size=size)]
    if got != expb:
      raise Violation("ola=None should hand out the processed blocks: %r vs %r" % (got, expb))
    return {"nontrivial": len(expb) >= 2, "labels": [what]}
  try:
    if c["at_call"]:
      got = list(stft(lambda b: b, **base)(list(sig), **extra))
    else:
      base.update(extra)
      got = list(stft(lambda b: b, **base)(list(sig)))
  except exp:
    return {"nontrivial": True, "labels": [what, "at call" if c["at_call"] else "at build"]}
  raise Violation("%s was accepted and produced %r" % (what, got))


# ------------------------------------------------------------------ several results in one process
# Every overlap-add result is a function of its own arguments only: whatever other calls were made
# before it in the same process, and whatever other results are alive (started, not yet exhausted)
# while it is being consumed.  A case is a handful of jobs (direct overlap_add.list calls and stft
# processors with the real overlap_add.list) with one size and hop, and a schedule that says when
# each one is started and how many samples are pulled from which one in which order.
WTYPES = ["Q", "Fraction", "float", "int"]
SIGKINDS = {"lists": "list", "tuples": "tuple", "gen": "generator", "stream": "Stream",
            "deques": "deque", "iters": "iterator"}
NONE4 = dict(transform=None, inverse_transform=None, before=None, after=None)
dyadic = st.one_of(st.integers(-3, 3).map(F), st.integers(-12, 12).map(lambda k: F(k, 4)))


def mk_signal(kind, sig):
  """The input signal of a stft processor in one of the kinds an iterable comes in."""
  if kind == "list":
    return list(sig)
  if kind == "tuple":
    return tuple(sig)
  if kind == "generator":
    return (v for v in list(sig))
  if kind == "Stream":
    return Stream(list(sig))
  if kind == "deque":
    return deque(sig)
  return iter(list(sig))


def _wconv(vals, wtype):
  """Window values in one numeric type.  Ints: the values themselves when they all are whole numbers,
  else four times the values, truncated (some window of ints)."""
  if wtype == "Q":
    return [Q(v) for v in vals]
  if wtype == "Fraction":
    return [F(v) for v in vals]
  if wtype == "float":
    return [float(v) for v in vals]
  k = 1 if all(F(v).denominator == 1 for v in vals) else 4
  return [int(F(v) * k) for v in vals]


def _divisors(n):
  return [d for d in range(1, n + 1) if n % d == 0]


def _shape_together(c):
  """plan 'twins': job 0 normalises with a window of floats, job 1 normalises with a window of
  Fractions that has the same absolute values (other signs), and job 0 is started first."""
  if c["plan"] != "twins":
    return c
  c = dict(c)
  jobs = [dict(j) for j in c["jobs"]]
  for j, wtype in ((0, "float"), (1, "Fraction")):
    jobs[j]["wsrc"] = "base"
    jobs[j]["wtype"] = wtype
    if jobs[j]["norm"] is False:
      jobs[j]["norm"] = True
    if jobs[j]["via"] == "stft analysis":
      jobs[j]["via"] = "stft"
  c["jobs"] = jobs
  c["steps"] = [(0, 1)] + [tuple(s) for s in c["steps"]]
  return c


def strat_together(tier):
  smax = 6 if tier == "quick" else 8

  def rest(k):
    size, hop, plan = k
    blk = st.lists(qv, min_size=size, max_size=size)
    job = st.fixed_dictionaries(dict(
      blks=st.one_of(st.lists(blk, max_size=4), st.lists(blk, min_size=2, max_size=4)),
      skind=st.sampled_from(["Q", "Q", "Fraction", "big int"]),
      wsrc=st.sampled_from(["base", "base", "own", "none"]),
      wv=st.lists(qv, min_size=size, max_size=size),
      flip=st.lists(st.booleans(), min_size=size, max_size=size),
      wtype=st.sampled_from(WTYPES),
      wkind=st.sampled_from(["list", "tuple", "callable", "gen", "stream", "iter", "callable+iterable"]),
      bkind=st.sampled_from(BKINDS),
      norm=st.sampled_from([True, "default", False]),
      via=st.sampled_from(["ola", "ola", "stft", "stft analysis"])))
    return st.fixed_dictionaries(dict(
      size=st.just(size), hop=st.just(hop), plan=st.just(plan),
      wbase=st.lists(dyadic, min_size=size, max_size=size),
      jobs=st.lists(job, min_size=2, max_size=4),
      create=st.sampled_from(["all before the first sample", "at first use"]),
      steps=st.lists(st.tuples(st.integers(0, 3), st.integers(1, size + 2)), max_size=8),
      drain=st.sampled_from(["in order", "reverse order", "one sample each in turns"]),
      shared_proc=st.booleans())).map(_shape_together)

  def hops(sp):
    size, plan = sp
    if plan == "twins":       # (a window of Fractions keeps an exact gain only when hop divides size)
      return st.tuples(st.just(size), st.sampled_from(_divisors(size)), st.just(plan))
    return st.tuples(st.just(size), st.sampled_from(["lt", "lt", "lt", "eq"]).flatmap(
      lambda r: st.just(size) if r == "eq" or size == 1 else st.integers(1, size - 1)), st.just(plan))
  return st.tuples(st.integers(1, smax), st.sampled_from(["free", "free", "twins"])).flatmap(hops).flatmap(rest)


def _together_job(c, j):
  """Everything about job j that follows from the case: the values handed over, how the call is
  made, and what the statement says must come out."""
  size, hop = c["size"], c["hop"]
  job = c["jobs"][j]
  via, wtype, nopt = job["via"], job["wtype"], job["norm"]
  norm = nopt is not False                      # "default": the option is not given; the overlap-add normalises
  analysis = via == "stft analysis"
  if job["wsrc"] == "none":
    wobj_vals = None
  elif job["wsrc"] == "base":
    wobj_vals = _wconv([-v if f else v for v, f in zip(c["wbase"], job["flip"])], wtype)
  else:
    wobj_vals = _wconv(job["wv"], wtype)
  wvals = None if wobj_vals is None else [F(x) for x in wobj_vals]
  # what is rounded on the unchanged tree (ASSUMPTIONS): w / gain for windows of floats, of ints
  # (int / int) and of Fractions when hop does not divide size (the strided sums are padded with 0.0)
  rounded = (wvals is not None and not analysis and norm
             and (wtype in ("float", "int") or (wtype == "Fraction" and size % hop != 0)))
  # plain samples only where no float meets them
  skind = job["skind"]
  if via != "ola" or rounded or wtype == "float" and wvals is not None or wvals is None and norm:
    skind = "Q"
  blks = [[to_plain(v, skind, k * size + i) for i, v in enumerate(b)] for k, b in enumerate(job["blks"])]
  sig = [v for b in blks for v in b]
  if via == "ola":
    oblks = blks
  else:
    oblks = [list(b) for b in blocks(list(sig), size=size, hop=hop)]
  if analysis and wvals is not None:
    pblks, ow = [[w * F(v) for w, v in zip(wvals, b)] for b in oblks], None
  else:
    pblks, ow = oblks, wvals
  exp = ola_ref(pblks, size, hop, ow, norm)
  mag = None
  if rounded:
    mag = ola_ref([[abs(F(v)) for v in b] for b in pblks], size, hop, [abs(v) for v in ow], norm)
  bkind = job["bkind"]
  what = ("job %d: %s, %d blocks %r, window %s%s, normalize %s, %s samples"
          % (j, via if via == "ola" else via + " (signal given as %s)" % SIGKINDS[bkind], len(oblks), oblks,
             "none" if wobj_vals is None else "%r as %s" % (wobj_vals, job["wkind"]),
             " (analysis window)" if analysis and wobj_vals is not None else "",
             "not given" if nopt == "default" else nopt, skind))

  def make(proc):
    wobj = None if wobj_vals is None else mk_window(job["wkind"], wobj_vals)
    if via == "ola":
      kw = dict(size=size, hop=hop)
      if nopt != "default":
        kw["normalize"] = nopt
      if wobj is not None:
        kw["wnd"] = wobj
      return overlap_add.list(mk_blocks(bkind, blks), **kw)
    kw = {}
    if nopt != "default":
      kw["ola_normalize"] = nopt
    if wobj is not None:
      kw["wnd" if analysis else "ola_wnd"] = wobj
    return proc(mk_signal(SIGKINDS[bkind], sig), **kw)
  return dict(via=via, wtype=wtype, norm=norm, nopt=nopt, analysis=analysis, wvals=wvals, rounded=rounded,
              skind=skind, pblks=pblks, ow=ow, exp=exp, mag=mag, what=what, make=make, nblocks=len(oblks))


def run_together(c):
  size, hop = c["size"], c["hop"]
  nj = len(c["jobs"])
  plans = [_together_job(c, j) for j in range(nj)]

  def new_proc():
    return stft(lambda blk: blk, size=size, hop=hop, ola=overlap_add.list, **NONE4)
  the_proc = new_proc() if c["shared_proc"] else None
  its = [None] * nj
  got = [[] for _ in range(nj)]
  ended = [False] * nj
  timeline = []                       # ("start" / "end", job) in the order things happened
  pulls = []                          # (job, samples asked for)

  def start(j):
    out = plans[j]["make"](the_proc if the_proc is not None else new_proc())
    if not isinstance(out, Stream):
      raise Violation("%s returned %s" % (plans[j]["via"], type(out).__name__))
    its[j] = iter(out)

  def pull(j, n):
    if its[j] is None:
      start(j)
    pulls.append((j, n))
    for _ in range(n):
      if ("start", j) not in timeline:
        timeline.append(("start", j))
      try:
        v = next(its[j])
      except StopIteration:
        if not ended[j]:
          ended[j] = True
          timeline.append(("end", j))
        return
      if ended[j]:
        raise Violation("a result that had ended yields again: %r (%s)" % (v, plans[j]["what"]))
      got[j].append(v)

  if c["create"] == "all before the first sample":
    for j in range(nj):
      start(j)
  for j, n in c["steps"]:
    pull(j % nj, n)
  most = max(len(p["exp"]) for p in plans) + size + 3
  if c["drain"] == "one sample each in turns":
    for _ in range(most):
      for j in range(nj):
        if not ended[j]:
          pull(j, 1)
  else:
    for j in (range(nj) if c["drain"] == "in order" else reversed(range(nj))):
      pull(j, most)
  # once more: a finished result stays finished
  for j in range(nj):
    pull(j, 1)
  story = "; ".join("%d from job %d" % (n, j) for j, n in pulls)
  for j, p in enumerate(plans):
    what = "%s; %d jobs, %s, pulled: %s" % (p["what"], nj, c["create"], story)
    if p["skind"] != "Q":
      check_plain(got[j], p["pblks"], size, hop, p["ow"], p["norm"], what)
      continue
    exp = p["exp"]
    if len(got[j]) != len(exp):
      raise Violation("%d samples, expected m*h+size-h = %d (size=%d hop=%d; %s)"
                      % (len(got[j]), len(exp), size, hop, what))
    for n, (g, e) in enumerate(zip(got[j], exp)):
      if isinstance(g, complex) or g != g:
        raise Violation("out[%d] = %r (%s)" % (n, g, what))
      ok = abs(F(g) - e) <= p["mag"][n] / 2 ** 46 if p["rounded"] else (g == e)
      if not ok:
        raise Violation("out[%d] = %r, expected %s%s (size=%d hop=%d): a result depends on its own arguments only, "
                        "not on the other calls of the process; got %r, expected %r; %s"
                        % (n, g, "about " if p["rounded"] else "exactly ", e, size, hop, got[j], exp, what))
  # ---- what the case was
  pos = {ev: i for i, ev in enumerate(timeline)}
  together = overlapping = twins = False
  for a in range(nj):
    for b in range(nj):
      if a == b or ("start", a) not in pos or ("start", b) not in pos:
        continue
      pa, pb = plans[a], plans[b]
      if pos[("start", a)] < pos[("start", b)] < pos.get(("end", a), len(timeline)):
        together = True
        if hop < size and pa["nblocks"] and pb["nblocks"]:
          overlapping = True
      if (pos[("start", a)] < pos[("start", b)] and pa["wtype"] == "float" and pb["wtype"] == "Fraction"
          and pa["norm"] and pb["norm"] and not pa["analysis"] and not pb["analysis"]
          and pa["wvals"] is not None and pb["wvals"] is not None and size % hop == 0
          and [abs(v) for v in pa["wvals"]] == [abs(v) for v in pb["wvals"]]):
        twins = True
  labels = ["%d jobs" % nj, c["create"], "drained " + c["drain"]]
  labels += sorted(set("via:" + p["via"] for p in plans))
  labels += sorted(set("window of " + p["wtype"] for p in plans if p["wvals"] is not None))
  if any(p["nopt"] == "default" for p in plans):
    labels.append("normalize not given")
  if any(p["nopt"] == "default" and p["via"] != "ola" for p in plans):
    labels.append("stft job, ola_normalize not given")
  if any(p["skind"] != "Q" for p in plans):
    labels.append("plain samples")
  if any(p["rounded"] for p in plans):
    labels.append("a rounded gain (compared within 2**-46)")
  if together:
    labels.append("results alive together")
  if overlapping:
    labels.append("overlapping results alive together")
  if twins:
    labels.append("exact window after an equal window of floats")
  if c["shared_proc"] and len([p for p in plans if p["via"] != "ola"]) >= 2:
    labels.append("one processor, several signals")
  kinds = set(SIGKINDS[j["bkind"]] for j, p in zip(c["jobs"], plans) if p["via"] != "ola")
  if kinds & {"generator", "iterator"}:
    labels.append("stft signal is a one-shot iterator")
  return {"nontrivial": overlapping or twins, "labels": labels}


CLAUSES = [
  Clause("ola", strat_ola, run_ola, quick=2500, thorough=40000,
         floors={"overlapping": .3, "detected size": .2, "no blocks": .03, "negative window entries": .1,
                 "normalize:True": .15, "window:callable+iterable": .03,
                 "window is a strategy dictionary": .06, "normalize=1": .03},
         doc="overlap_add.list == ola_ref: length m*h+size-h and every sample of the windowed hop-shifted sum with the stated gain"),
  Clause("ola_plain", strat_ola_plain, run_ola_plain, quick=1500, thorough=25000,
         floors={"samples:Fraction": .08, "samples:big int": .08, "samples:mixed": .08,
                 "no window, no normalise": .2, "window, no normalise": .07, "Fraction window, normalise": .04,
                 "a sample no double can hold": .2, "hop == size": .12, "delicate samples overlap": .1,
                 "detected size": .12},
         doc="samples that are not Q (plain Fractions, ints beyond 2**53, small ints, mixtures), without window and "
             "normalisation or with plain rational windows: every sample past the float-zero start of the overlap "
             "memory is exactly the sum of the blocks' samples, the first size-hop are within rounding of it"),
  Clause("refusals", strat_bad, run_bad, quick=300, thorough=3000,
         doc="wrong window length / wrong block length -> ValueError; non-iterable window -> TypeError"),
  Clause("cola", strat_cola, run_cola, quick=1200, thorough=20000,
         floors={"window, no normalise": .1, "nonneg window, normalise": .1, "samples:Fraction": .04,
                 "samples:big int": .05, "plain samples, no window, no normalise": .025},
         doc="blocking then overlap-adding with a sum-to-one window returns the signal on fully covered samples"),
  Clause("stft", strat_stft, run_stft, quick=1200, thorough=20000,
         floors={"style:decorator": .1, "style:partial": .1, "call-time options": .3, "window at analysis": .2,
                 "call-time override": .05, "overlap-add by default set before build": .08,
                 "overlap-add by default set after build": .08, "samples:Fraction": .05, "samples:big int": .05,
                 "synthesis window is a one-shot iterator": .015, "signal is a one-shot iterator": .065,
                 "ola_normalize not given": .04, "ola_normalize True": .03},
         doc="stft wiring (window x block reaches the user function, stage order, ola_ options stripped and passed) and identity reconstruction"),
  Clause("stft_stage_values", strat_values, run_values, quick=1200, thorough=15000,
         floors={"a stage result is falsy": .15, "falsy because of the data (zero / empty)": .08,
                 "a stage result has no truth value": .04, "kind:scalar": .03},
         doc="each stage receives exactly what the stage before it returned, whatever that value is (0, empty "
             "containers, objects that are falsy or have no truth value), and the last result is what is "
             "overlap-added (or handed out with ola=None)"),
  Clause("stft_refusals", strat_stft_bad, run_stft_bad, quick=300, thorough=3000,
         doc="unknown option / missing size / ola option without ola -> TypeError; hop > size / wrong window length -> ValueError; ola=None yields blocks"),
  Clause("together", strat_together, run_together, quick=1600, thorough=25000,
         floors={"results alive together": .2, "overlapping results alive together": .1,
                 "exact window after an equal window of floats": .08, "via:stft": .15, "via:stft analysis": .1,
                 "stft job, ola_normalize not given": .08, "stft signal is a one-shot iterator": .08,
                 "one processor, several signals": .025, "plain samples": .1, "window of int": .05,
                 "drained one sample each in turns": .1, "at first use": .15},
         doc="several overlap-add results in one process (direct calls and stft processors with the real "
             "overlap_add.list, one size and hop), started and consumed in a generated order - in turns, nested, "
             "one after the other: each result is the defining sum of its own blocks, window and gain, whatever "
             "calls came before it (windows with the same absolute values in another numeric type, other signs) "
             "and whatever other results are alive"),
]
