"""C11 - PARCOR step-down inverts Levinson and decides stability correctly.

Exact rational arithmetic throughout (``Q`` coefficients): reflection
coefficients are recovered *exactly*, and pole locations are known by
construction (|r| vs 1, a^2+b^2 vs 1 in rationals), so every verdict of
``parcor_stable`` is compared with a certain answer.
"""
from fractions import Fraction
from hypothesis import strategies as st
from vlib.core import Clause, Enumerated, Violation, Reject
from vlib.q import Q

from audiolazy import (levinson_durbin, parcor, parcor_stable, ParCorError,
                       ZFilter, CascadeFilter, z)

ID = "C11"
RULE = ("cases = (reflection vector, last entry non-zero, any rational magnitude incl. +-1 | monic "
        "coefficient list) x construction route for parcor; (r0, reflection vector in (-1,1)) | "
        "(Q block, order | default order) for parcor(levinson_durbin(r)), reflection vectors optionally with the "
        "entries that cancel an autocorrelation lag to exactly zero (last lag included, default order); (root groups: real r / conjugate pair "
        "a+-bi with multiplicity, non-zero gain, numerator zeros and gain, construction route) for "
        "parcor_stable; the same with plain float coefficients (dyadic roots and gains, every coefficient an exact "
        "double, degree up to 16/20); (reflection vector in (-1,1): dyadic | dyadic with |k| <= 1/2 | any, r0, power-of-two "
        "scale 2^s with s = 0 | |s| <= 60 | -700..-480 | 480..700, order given | default) for levinson_durbin / parcor "
        "on plain float lags; plus a grid of first-order int/float denominators and a grid of float denominators of "
        "degree 1-2 with leading coefficient and poles between 2^-1060 and 2^1000. levinson_durbin cases also draw: "
        "reflection vectors of any rational magnitude other than 1 (negative prediction errors), a last entry +-1 "
        "(error 0, step-down stops on it), r0 of either sign, the order written as default | number of lags - 1 | "
        "lower | beyond the lags (zero extension; number of lags exactly, +1, +2), whole-block data lags with any "
        "order, and a history of 0-2 earlier levinson_durbin calls on the very same list object (other lags "
        "written in place by slice or item by item, or the same lags with another order). oracle = step-up "
        "recursion / reference step-down in Fractions, exact Toeplitz solves, pole moduli known "
        "from the construction; non-trivial = order >= 2; distinct = distinct case hash")
ASSUMPTIONS = [
  "coefficients are Q (exact rationals), so the step-down is exact and |k| == 1 is decidable",
  "denominators have a non-zero leading (z^0) coefficient and their degree equals the number of chosen roots (no root at 0)",
  "numerator zeros that coincide with a chosen pole are dropped (a cancelled pole is not a pole)",
  "int coefficients are used only on the first-order grid, where k = a1/a0 is exactly representable",
  "float denominators beyond first order: every coefficient is exactly the rational it stands for (dyadic roots/gains), so the poles are the chosen ones; floats are used only when an a-priori rounding bound of the step-down (8 roundings counted per operation) leaves every deciding | |k| - 1 | at least 64 bounds wide, otherwise the same case runs with exact numbers",
  "ParCorError from parcor is required exactly when a yielded coefficient has modulus 1 (the division that follows is by 1-k^2 = 0)",
  "levinson_durbin(r, order) answers for the lags that are in r when it is called (zero beyond the given ones), whatever was done with the list object or with other lags before; a last reflection coefficient of modulus 1 gives error 0 and no exception (parcor then yields it and raises ParCorError); an order beyond the lags is checked only when every leading Yule-Walker system of the zero-extended lags is non-singular",
  "floats of extreme magnitude (grid): every coefficient is an exact double and every reflection coefficient of the exact step-down is below 2^-50 or, the first that is not, above 2^50, so the verdict of a double precision step-down is certain; only the verdict and the first coefficient parcor yields are asserted there (the step after a coefficient beyond sqrt(max double) overflows in the unchanged code as well)",
  "float lags: the lags are the doubles nearest to (constructed rational lag) * 2^s and the reference is the exact recursion on those doubles (rational lags, as the property says); the tolerance is an a-priori bound of a double precision run of the recursion (delta = sum a_j r_(m-j); E as quadratic form of the coefficients or as E.(1-k^2), whichever bound is larger; k = -delta/E; coefficient update) followed by the step-down, 8 roundings counted per operation, evaluated in units of 2^s: lags, delta and E are lag-sized, coefficients are pure numbers, so for |s| <= 700 no quantity of the recursion leaves the normal double range and a lag-sized product that underflows is off by at most 2^-374 lag units (added per operation); floats are used only when every bound (coefficients, each k, error / E) is below 2^-20, otherwise the same lags run as exact numbers",
]


# ---------------------------------------------------------------- exact oracle
def fr(x):
  if isinstance(x, bool):
    raise Violation("boolean where a number is expected: %r" % (x,))
  return Fraction(x)


def show(v):
  return "[" + ", ".join(str(Fraction(x)) for x in v) + "]"


def stepup(ks):
  """A_m(z) = A_{m-1}(z) + k_m z^-m A_{m-1}(1/z), A_0 = 1."""
  A = [Fraction(1)]
  for m, k in enumerate(ks, 1):
    k = Fraction(k)
    A = [(A[i] if i < len(A) else 0) + k * (A[m - i] if 0 <= m - i < len(A) else 0)
         for i in range(m + 1)]
  return A


def stepdown_ref(A):
  """Reference step-down: (yielded coefficients, True if it stops on |k| == 1)."""
  A = [Fraction(v) for v in A]
  out = []
  for m in range(len(A) - 1, 0, -1):
    k = A[m]
    out.append(k)
    if abs(k) == 1:
      return out, True
    A = [(A[i] - k * A[m - i]) / (1 - k * k) for i in range(m)]
  return out, False


def r_from_reflections(r0, ks):
  r = [Fraction(r0)]
  A = [Fraction(1)]
  E = Fraction(r0)
  for m, k in enumerate(ks, 1):
    k = Fraction(k)
    r.append(-k * E - sum(A[j] * r[m - j] for j in range(1, m)))
    A = [(A[i] if i < len(A) else 0) + k * (A[m - i] if 0 <= m - i < len(A) else 0)
         for i in range(m + 1)]
    E *= 1 - k * k
  return r


def solve(M, b):
  n = len(M)
  A = [list(row) + [bi] for row, bi in zip(M, b)]
  for c in range(n):
    piv = next((i for i in range(c, n) if A[i][c] != 0), None)
    if piv is None:
      return None
    A[c], A[piv] = A[piv], A[c]
    pv = A[c][c]
    A[c] = [v / pv for v in A[c]]
    for i in range(n):
      if i != c and A[i][c] != 0:
        f = A[i][c]
        A[i] = [vi - f * vc for vi, vc in zip(A[i], A[c])]
  return [A[i][n] for i in range(n)]


def polymul(a, b):
  out = [Fraction(0)] * (len(a) + len(b) - 1)
  for i, x in enumerate(a):
    for j, y in enumerate(b):
      out[i + j] += x * y
  return out


def collect(gen):
  """Drain a parcor generator: (values, raised ParCorError?)."""
  got = []
  try:
    for k in gen:
      got.append(k)
      if len(got) > 64:
        raise Violation("parcor yields more than 64 coefficients")
  except ParCorError:
    return got, True
  return got, False


def w(strategy, n):
  """n distinct copies (one_of drops repeated identical branches)."""
  return [strategy.map(lambda v: v) for _ in range(n)]


def fir(coeffs, route, g):
  """A FIR ZFilter with the given numerator, built along one of several routes."""
  cq = [Q(c) for c in coeffs]
  if route == "list":
    return ZFilter(cq)
  if route == "dict":
    return ZFilter(dict((i, c) for i, c in enumerate(cq) if c != 0 or i == 0))
  if route == "expr":
    return sum((c * z ** -i for i, c in enumerate(cq) if i), ZFilter(cq[0]))
  if route == "constden":   # same transfer function written as (g.A) / g
    return ZFilter([Q(g) * c for c in cq], [Q(g)])
  raise AssertionError(route)


# ---------------------------------------------------------------- step-down
_kbig = st.fractions(min_value=-3, max_value=3, max_denominator=6)
_kin = st.fractions(min_value=Fraction(-19, 20), max_value=Fraction(19, 20), max_denominator=20)
_unit = st.sampled_from([Fraction(1), Fraction(-1)])
_gain = st.one_of(st.fractions(min_value=-4, max_value=4, max_denominator=4), st.integers(-3, 3)
                  ).filter(lambda g: g != 0)
_ROUTES = ["list", "dict", "expr", "constden"]


def _nz(s):
  return s.filter(lambda k: k != 0)


def strat_stepdown(tier):
  pmax = 6 if tier == "quick" else 8

  def ks_vec(kind):
    if kind == "inside":
      body, last = st.one_of(*(w(_kin, 3) + [st.just(Fraction(0))])), _nz(_kin)
    elif kind == "any":
      body = st.one_of(*(w(_kbig.filter(lambda k: abs(k) != 1), 4) + [st.just(Fraction(0))]))
      last = _nz(_kbig).filter(lambda k: abs(k) != 1)
    else:  # "unit": +-1 possible at every position
      body = st.one_of(*(w(_kbig, 3) + [_unit]))
      last = st.one_of(_nz(_kbig), _unit)
    return st.tuples(st.lists(body, min_size=0, max_size=pmax - 1), last).map(
      lambda t: [Q(k) for k in t[0] + [t[1]]])

  def case(kind):
    if kind == "coeffs":
      src = st.tuples(st.lists(_kbig, min_size=0, max_size=pmax - 1), _nz(_kbig)).map(
        lambda t: [Q(c) for c in t[0] + [t[1]]])
      return st.fixed_dictionaries(dict(src=st.just("coeffs"), a=src,
                                        route=st.sampled_from(_ROUTES), g=_gain.map(Q)))
    return st.fixed_dictionaries(dict(src=st.just("ks"), ks=ks_vec(kind),
                                      route=st.sampled_from(_ROUTES), g=_gain.map(Q)))
  return st.sampled_from(["inside", "inside", "any", "any", "any", "unit", "coeffs", "coeffs"]).flatmap(case)


def run_stepdown(case):
  if case["src"] == "ks":
    ks = [fr(k) for k in case["ks"]]
    A = stepup(ks)
  else:
    ks = None
    A = [Fraction(1)] + [fr(c) for c in case["a"]]
  p = len(A) - 1
  filt = fir(A, case["route"], case["g"])
  what = "parcor(%s numerator %s)" % (case["route"], show(A))
  got, raised = collect(parcor(filt))
  gf = [fr(k) for k in got]
  labels = ["src:" + case["src"], "route:" + case["route"]]
  # ParCorError exactly when a yielded coefficient has modulus one (and then it is the last one)
  units = [i for i, k in enumerate(gf) if abs(k) == 1]
  if raised and (not units or units[0] != len(gf) - 1):
    raise Violation("%s raised ParCorError after yielding %s: no |k| == 1 was met"
                    % (what, show(gf)))
  if not raised and units:
    raise Violation("%s yielded %s (a coefficient of modulus 1) without ParCorError"
                    % (what, show(gf)))
  ref, ref_stop = stepdown_ref(A)
  if gf != ref or raised != ref_stop:
    raise Violation("%s yielded %s%s, reference step-down gives %s%s"
                    % (what, show(gf), " then ParCorError" if raised else "",
                       show(ref), " then stops on |k|=1" if ref_stop else ""))
  if ks is not None:
    unit_at = [m for m, k in enumerate(ks, 1) if abs(k) == 1]
    if not unit_at:
      if raised or gf[::-1] != ks:
        raise Violation("step-up of k=%s is %s; parcor gives back %s%s"
                        % (show(ks), show(A), show(gf[::-1]), " and ParCorError" if raised else ""))
    else:
      top = unit_at[-1]
      if not raised or gf != ks[top - 1:][::-1]:
        raise Violation("k=%s has |k_%d| = 1: expected %s then ParCorError, got %s%s"
                        % (show(ks), top, show(ks[top - 1:][::-1]), show(gf),
                           " then ParCorError" if raised else ""))
  if not raised:
    if len(gf) != p:
      raise Violation("%s yielded %d coefficients for order %d" % (what, len(gf), p))
    back = stepup(gf[::-1])
    if back != A:
      raise Violation("%s yielded %s; step-up of these rebuilds %s, not the filter"
                      % (what, show(gf), show(back)))
    labels.append("complete")
    if any(abs(k) > 1 for k in gf):
      labels.append("some |k|>1")
    if any(k == 0 for k in gf):
      labels.append("zero inside")
  else:
    labels.append("ParCorError")
  return {"nontrivial": p >= 2, "labels": labels + ["order %d" % min(p, 9)]}


# ------------------------------------------------------------ after Levinson
_sample = st.one_of(st.fractions(min_value=-3, max_value=3, max_denominator=6),
                    st.integers(-3, 3).map(Fraction))
_R0 = st.fractions(min_value=Fraction(1, 8), max_value=6, max_denominator=8)
_REFILL = ["slice", "slice", "items", "items", "keep"]


def _history(pmax):
  """Earlier levinson_durbin calls made on the very list object the call under test gets: each entry
  has its own lags (a reflection vector in (-1, 1), cycled to the length at hand, and r0) or, with
  lags == "final", the lags of the call under test (an order sweep), an order mode, and the way the
  list is given its content for that call (slice assignment, item by item; "keep" = not written
  again when the content is already the wanted one)."""
  entry = st.fixed_dictionaries(dict(
    lags=st.sampled_from(["own", "own", "own", "final"]),
    ks=st.lists(_kin, min_size=1, max_size=pmax).map(lambda v: [Q(k) for k in v]),
    r0=_R0.map(Q),
    order=st.sampled_from(["default", "given", "lower", "lower", "beyond"]),
    m=st.integers(0, 7),
    refill=st.sampled_from(_REFILL)))
  return st.one_of(st.just([]), st.lists(entry, min_size=1, max_size=2))


def strat_levinson(tier):
  pmax = 6 if tier == "quick" else 8

  def kvec(kind="inside"):
    if kind == "inside":
      body, last = st.one_of(*(w(_kin, 4) + [st.just(Fraction(0))])), _nz(_kin)
    else:
      # any rational magnitude other than 1: prediction errors of either sign
      body = st.one_of(*(w(_kbig.filter(lambda k: abs(k) != 1), 3) + w(_kin, 2) + [st.just(Fraction(0))]))
      last = _nz(_kbig).filter(lambda k: abs(k) != 1) if kind == "any" else _unit   # "unitlast"
    return st.tuples(st.lists(body, min_size=0, max_size=pmax - 1), last).map(
      lambda t: [Q(k) for k in t[0] + [t[1]]])

  hist = dict(before=_history(pmax), refill=st.sampled_from(_REFILL), m=st.integers(0, 7),
              extra=st.sampled_from([0, 0, 1, 2]))
  orders = ["default", "default", "given", "given", "lower", "beyond", "beyond"]

  def case(kind):
    if kind == "k":
      return st.fixed_dictionaries(dict(
        src=st.just("k"), ks=kvec(), r0=_R0.map(Q), order=st.sampled_from(orders), **hist))
    if kind in ("any", "unitlast"):
      return st.fixed_dictionaries(dict(
        src=st.just("k"), ks=kvec(kind),
        r0=st.one_of(_R0, _R0, _R0.map(lambda v: -v)).map(Q),
        order=st.sampled_from(orders if kind == "any" else ["default", "given", "lower"]), **hist))
    if kind == "kc":
      # reflection vectors with autocorrelation lags that vanish exactly: at the marked positions
      # (the last one, mostly) the coefficient is the one value that cancels the lag - a zero lag
      # says nothing about the reflection coefficient of that order
      return kvec().flatmap(lambda ks: st.fixed_dictionaries(dict(
        src=st.just("k"), ks=st.just(ks),
        cancel=st.tuples(st.lists(st.sampled_from([False, False, True]), min_size=len(ks) - 1, max_size=len(ks) - 1),
                         st.sampled_from([True, True, True, False])).map(lambda t: t[0] + [t[1]]),
        r0=_R0.map(Q),
        order=st.sampled_from(["default", "default", "default", "given"]), **hist)))
    if kind == "datafull":
      # every lag of the block is given (len(blk) of them; the ones beyond are exactly zero, so the
      # zero extension the code makes for a larger order is the true autocorrelation): any order
      return st.lists(_sample.map(Q), min_size=2, max_size=pmax).flatmap(
        lambda blk: st.fixed_dictionaries(dict(src=st.just("data"), blk=st.just(blk), full=st.just(True),
                                               order=st.one_of(st.integers(1, len(blk) + 2), st.just(len(blk)),
                                                               st.just("default")),
                                               **hist)))
    return st.lists(_sample.map(Q), min_size=2, max_size=pmax + 1).flatmap(
      lambda blk: st.fixed_dictionaries(dict(src=st.just("data"), blk=st.just(blk),
                                             order=st.one_of(st.integers(1, len(blk) - 1),
                                                             st.integers(1, len(blk) - 1),
                                                             st.just("default")), **hist)))
  return st.sampled_from(["k", "k", "k", "any", "any", "unitlast", "kc", "kc", "kc", "kc",
                          "data", "data", "datafull"]).flatmap(case)


def cancelling_ks(r0, ks, cancel):
  """ks with the entries marked in ``cancel`` replaced, where possible, by the value in (-1, 1)
  that makes the autocorrelation lag of that order exactly zero (the last one stays non-zero)."""
  r = [Fraction(r0)]
  A = [Fraction(1)]
  E = Fraction(r0)
  out = []
  for m, k in enumerate(ks, 1):
    k = Fraction(k)
    if cancel[m - 1]:
      c = -sum((A[j] * r[m - j] for j in range(1, m)), Fraction(0)) / E
      if abs(c) < 1 and (c != 0 or m < len(ks)):
        k = c
    out.append(k)
    r.append(-k * E - sum(A[j] * r[m - j] for j in range(1, m)))
    A = [(A[i] if i < len(A) else 0) + k * (A[m - i] if 0 <= m - i < len(A) else 0)
         for i in range(m + 1)]
    E *= 1 - k * k
  return out


def toeplitz_ks(r, n):
  """Reflection coefficients of orders 1..n of the lags r (zero beyond the given ones): the last
  entry of the solution of each leading Yule-Walker system, solved exactly.  None when one of the
  systems is singular (a coefficient of modulus 1 below the order)."""
  r = list(r) + [Fraction(0)] * (n + 1 - len(r))
  ks = []
  for m in range(1, n + 1):
    y = solve([[r[abs(i - j)] for j in range(m)] for i in range(m)], [-r[i] for i in range(1, m + 1)])
    if y is None:
      return None
    ks.append(y[-1])
  return ks


def _call_ld(buf, mode, nlags, m):
  """levinson_durbin on the list ``buf`` of ``nlags`` lags with the order written as ``mode`` says."""
  top = nlags - 1
  if mode == "default" or top < 1:
    return levinson_durbin(buf)
  if mode == "lower" and top >= 2:
    return levinson_durbin(buf, 1 + m % (top - 1))
  if mode == "beyond":
    return levinson_durbin(buf, top + 1 + m % 2)
  return levinson_durbin(buf, top)


def _fill(buf, vals, how):
  """The list the caller keeps for its lags, holding ``vals``: a new list the first time, then the
  same object written in place."""
  if buf is None:
    return list(vals)
  if len(buf) != len(vals):
    raise AssertionError("history lags of another length")
  if how == "keep" and buf == vals:
    return buf
  if how == "items":
    for i, v in enumerate(vals):
      buf[i] = v
  else:
    buf[:] = vals
  return buf


def run_history(case, final, labels):
  """The calls of case["before"] on one list; returns (the list, [(filter, numerator, error, text)])."""
  buf = None
  seen = []
  nl = len(final)
  for ent in case.get("before") or []:
    if ent["lags"] == "final":
      lags = list(final)
      labels.append("history: same lags, other call before (order sweep)")
    else:
      kb = [fr(ent["ks"][i % len(ent["ks"])]) for i in range(nl - 1)]
      lags = [Q(v) for v in r_from_reflections(fr(ent["r0"]), kb)]
      labels.append("history: same list held other lags before")
    buf = _fill(buf, lags, ent["refill"])
    text = "levinson_durbin(%s, order %s)" % (show(lags), ent["order"])
    try:
      f = _call_ld(buf, ent["order"], nl, ent["m"])
    except ParCorError:
      if ent["order"] == "beyond" or ent["lags"] == "final":
        continue      # a zero extension (or the lags under test themselves) may be singular
      raise Violation("%s raised ParCorError: these lags have every |k| < 1" % text)
    if buf != lags:
      raise Violation("%s changed the caller's list to %s" % (text, show(buf)))
    seen.append((f, [fr(v) for v in f.numerator], fr(f.error), text))
  return buf, seen


def run_levinson(case):
  labels = []
  mode = case["order"]
  if case["src"] == "k":
    ks = [fr(k) for k in case["ks"]]
    if case.get("cancel"):
      ks = cancelling_ks(case["r0"], ks, case["cancel"])
    r = r_from_reflections(case["r0"], ks)
    p = len(ks)
    n = p
    if mode == "lower":
      if p >= 2:
        n = 1 + case.get("m", 0) % (p - 1)
      else:
        mode = "given"
    elif mode == "beyond":
      n = p + 1 + case.get("extra", 0)
      ext = toeplitz_ks(r, n) if all(abs(k) != 1 for k in ks) else None
      if ext is None:
        mode, n = "given", p
      else:
        if ext[:p] != ks:
          raise AssertionError("Toeplitz solves contradict the construction")   # oracle self-check
        ks = ext
    ks = ks[:n]
    rq = [Q(v) for v in r]
    buf, seen = run_history(case, rq, labels)
    rq = _fill(buf, rq, case.get("refill", "slice"))
    if mode == "given" and len(ks) % 2:
      # the same lag list was first used with a larger order (zero extension): the recursion for
      # this order is a function of the lags it is given now, not of what happened to the list before
      try:
        levinson_durbin(rq, p + 2)
      except ParCorError:
        if all(abs(k) != 1 for k in ks) and toeplitz_ks(r, p + 2) is not None:
          raise
      if rq != [Q(v) for v in r]:
        raise Violation("levinson_durbin(r, order beyond the lags) changed the caller's list r to %s" % show(rq))
      filt = levinson_durbin(rq)
    elif mode == "default":
      filt = levinson_durbin(rq)
    else:
      filt = levinson_durbin(rq, n)
    if rq != [Q(v) for v in r]:
      raise Violation("levinson_durbin(r = %s, order %s) changed the caller's list r to %s" % (show(r), mode, show(rq)))
    if mode == "beyond":
      labels.append("order beyond the lags")
      if n == p + 1:
        labels.append("order == number of lags")
    elif mode == "lower":
      labels.append("order below the lags")
    if fr(case["r0"]) < 0:
      labels.append("r0 negative")
  else:
    x = [fr(v) for v in case["blk"]]
    if case.get("full"):
      # all len(x) lags are given, whatever the order
      n = len(x) - 1 if mode == "default" else mode
      p = len(x) - 1
      r = [sum((x[i] * x[i + t] for i in range(len(x) - t)), Fraction(0)) for t in range(len(x))]
      if r[0] == 0:
        raise Reject()
      ks = toeplitz_ks(r, n)      # data autocorrelations (zero beyond the block) are positive definite
      rq = [Q(v) for v in r]
      buf, seen = run_history(case, rq, labels)
      rq = _fill(buf, rq, case.get("refill", "slice"))
      filt = levinson_durbin(rq) if mode == "default" else levinson_durbin(rq, n)
      if rq != [Q(v) for v in r]:
        raise Violation("levinson_durbin(r = %s, %s) changed the caller's list r to %s" % (show(r), n, show(rq)))
      if n > p:
        labels.append("order beyond the lags")
        if n == p + 1:
          labels.append("order == number of lags")
      elif n < p:
        labels.append("order below the lags")
    else:
      p = len(x) - 1 if mode == "default" else mode
      r = [sum((x[i] * x[i + t] for i in range(len(x) - t)), Fraction(0)) for t in range(p + 1)]
      if r[0] == 0:
        raise Reject()
      ks = []
      for m in range(1, p + 1):
        y = solve([[r[abs(i - j)] for j in range(m)] for i in range(m)], [-r[i] for i in range(1, m + 1)])
        ks.append(y[-1])          # data autocorrelations are positive definite: never singular
      rq = [Q(v) for v in r]
      buf, seen = run_history(case, rq, labels)
      rq = _fill(buf, rq, case.get("refill", "slice"))
      filt = levinson_durbin(rq) if mode == "default" else levinson_durbin(rq, p)
  lags = ["order:default" if mode == "default" else "order:given"] + sorted(set(labels))
  if seen:
    lags.append("history: same list object used before")
  rn = r[:len(ks) + 1] + [Fraction(0)] * (len(ks) + 1 - len(r))    # the lags the order at hand reads
  if ks and ks[-1] != 0 and rn[-1] == 0:
    lags.append("last lag zero, last k non-zero")
    if mode == "default":
      lags.append("last lag zero, default order")
  if any(v == 0 and k != 0 for v, k in zip(rn[1:-1], ks[:-1])):
    lags.append("zero lag inside, k non-zero")
  err = r[0]
  for k in ks:
    err *= 1 - k * k
  while ks and ks[-1] == 0:     # the order is the highest non-zero coefficient
    ks.pop()
  what = "levinson_durbin(%s%s)" % (show(r), "" if mode == "default" else ", %d" % (len(rn) - 1))
  if seen:
    what += " [after, on the same list object: %s]" % "; ".join(t[3] for t in seen)
  for f, num, e, text in seen:
    if [fr(v) for v in f.numerator] != num or fr(f.error) != e:
      raise Violation("%s changed the result of the earlier call %s: numerator %s -> %s, error %s -> %s"
                      % (what, text, show(num), show(f.numerator), e, f.error))
  num_before = [fr(v) for v in filt.numerator]
  got, raised = collect(parcor(filt))
  gf = [fr(k) for k in got]
  if ks and abs(ks[-1]) == 1:
    # the last reflection coefficient has modulus one: error 0, and the step-down stops on it
    if not raised or gf != [ks[-1]]:
      raise Violation("parcor(%s) yields %s%s; the last reflection coefficient is %s: expected it, then ParCorError "
                      "(k = %s)" % (what, show(gf), " then ParCorError" if raised else "", ks[-1], show(ks)))
    lags.append("last |k| = 1")
  else:
    if raised:
      raise Violation("parcor(%s) raised ParCorError after %s although no |k| is 1 (k = %s)"
                      % (what, show(gf), show(ks)))
    if gf[::-1] != ks:
      raise Violation("parcor(%s) reversed is %s, the recursion's reflection coefficients are %s"
                      % (what, show(gf[::-1]), show(ks)))
    back = stepup(gf[::-1])
    if back != num_before:
      raise Violation("step-up of parcor(%s) = %s rebuilds %s, the filter is %s"
                      % (what, show(gf), show(back), show(num_before)))
  if filt.error != err:
    raise Violation("%s: error %r != r0 * prod(1 - k^2) = %s (k = %s)" % (what, filt.error, err, show(ks)))
  if stepup(ks) != num_before:
    raise Violation("%s is %s; the step-up recursion on its reflection coefficients %s gives %s"
                    % (what, show(num_before), show(ks), show(stepup(ks))))
  if [fr(v) for v in filt.numerator] != num_before or list(filt.denominator) != [1]:
    raise Violation("parcor modified the filter it was given")
  labels = ["src:" + case["src"], "order %d" % min(len(ks), 9)] + lags
  if any(k == 0 for k in ks):
    labels.append("zero inside")
  if any(abs(k) > 1 for k in ks):
    labels.append("some |k| > 1")
  if err < 0:
    labels.append("error negative")
  return {"nontrivial": len(ks) >= 2, "labels": labels}


# ------------------------------------------------------------------ stability
_CIRCLE = [(3, 4, 5), (4, 3, 5), (5, 12, 13), (12, 5, 13), (8, 15, 17), (0, 1, 1), (7, 24, 25), (20, 21, 29)]
_IN_SCALE = [Fraction(1, 2), Fraction(2, 3), Fraction(9, 10), Fraction(99, 100), Fraction(1, 4)]
_OUT_SCALE = [Fraction(11, 10), Fraction(3, 2), Fraction(2), Fraction(101, 100), Fraction(5)]


def _real(where):
  inside = _nz(st.one_of(st.fractions(min_value=Fraction(-7, 8), max_value=Fraction(7, 8), max_denominator=8),
                         st.sampled_from([Fraction(99, 100), Fraction(-99, 100), Fraction(1, 2), Fraction(-1, 2)]),
                         # as close to the circle as exact arithmetic allows: no numerical "almost one"
                         # threshold may turn these into critical cases
                         st.sampled_from([1 - Fraction(1, 10 ** 13), Fraction(1, 10 ** 13) - 1,
                                          1 - Fraction(1, 10 ** 7), 1 - Fraction(1, 2 ** 60), Fraction(1, 10 ** 9) - 1])))
  if where == "in":
    return inside
  if where == "on":
    return _unit
  return st.one_of(inside.map(lambda r: 1 / r),
                   st.sampled_from([Fraction(101, 100), Fraction(-101, 100), Fraction(2), Fraction(-2), Fraction(7),
                                    1 + Fraction(1, 10 ** 13), -1 - Fraction(1, 10 ** 9)]))


def _pair(where):
  pt = st.tuples(st.sampled_from(_CIRCLE), st.sampled_from([1, -1]), st.sampled_from([1, -1])).map(
    lambda t: (Fraction(t[1] * t[0][0], t[0][2]), Fraction(t[2] * t[0][1], t[0][2])))
  if where == "on":
    return pt
  scaled = st.tuples(pt, st.sampled_from(_IN_SCALE if where == "in" else _OUT_SCALE)).map(
    lambda t: (t[0][0] * t[1], t[0][1] * t[1]))
  free = st.tuples(st.fractions(min_value=-2, max_value=2, max_denominator=6),
                   _nz(st.fractions(min_value=-2, max_value=2, max_denominator=6))).filter(
    lambda ab: (ab[0] ** 2 + ab[1] ** 2 < 1) == (where == "in") and ab[0] ** 2 + ab[1] ** 2 != 1)
  return st.one_of(scaled, free)


def _group(where):
  mult = st.sampled_from([1, 1, 1, 2])
  return st.one_of(
    st.tuples(st.just("r"), _real(where).map(Q), mult),
    st.tuples(st.just("c"), _pair(where).map(lambda ab: (Q(ab[0]), Q(ab[1]))), mult).map(
      lambda t: ("c", t[1][0], t[1][1], t[2])))


_SROUTES = ["list", "recip", "expr", "cascade"]


def strat_stable(tier):
  gmax = 3 if tier == "quick" else 4

  def roots(regime):
    ins = st.lists(_group("in"), min_size=0, max_size=gmax)
    if regime == "inside":
      return st.lists(_group("in"), min_size=1, max_size=gmax)
    if regime == "none":
      return st.just([])
    bad = {"on": _group("on"), "outside": _group("out"),
           "mixed": st.one_of(_group("on"), _group("out"))}[regime]
    extra = st.lists(bad, min_size=1, max_size=2 if regime == "mixed" else 1)
    return st.tuples(ins, extra, st.integers(0, gmax)).map(
      lambda t: t[0][:t[2] % (len(t[0]) + 1)] + t[1] + t[0][t[2] % (len(t[0]) + 1):])

  def case(regime):
    return st.fixed_dictionaries(dict(
      roots=roots(regime),
      gain=st.one_of(st.just(Q(1)), st.just(Q(-1)), _gain.map(Q), _gain.map(Q)),
      zeros=st.lists(st.fractions(min_value=-2, max_value=2, max_denominator=4).map(Q), max_size=2),
      ngain=_gain.map(Q),
      numtype=st.sampled_from(["Q", "Q", "Fraction"]),
      route=st.sampled_from(_SROUTES)))
  return st.sampled_from(["inside"] * 8 + ["on"] * 4 + ["outside"] * 4 + ["mixed"] * 2 + ["none"]).flatmap(case)


def build_stable_case(case):
  """(filter, exact denominator coefficients, verdict, labels) of a stability case."""
  g = fr(case["gain"])
  # plain Fractions as well as Q: with Q every float constant in the code is absorbed exactly,
  # with plain Fractions a float literal creeping into the recursion turns it into floats
  T = Fraction if case.get("numtype") == "Fraction" else Q
  factors = []
  inside = []
  labels = []
  realpoles = set()
  for grp in case["roots"]:
    if grp[0] == "r":
      r, mult = fr(grp[1]), grp[2]
      fac = [Fraction(1), -r]
      mod2 = r * r
      realpoles.add(r)
    else:
      a, b, mult = fr(grp[1]), fr(grp[2]), grp[3]
      fac = [Fraction(1), -2 * a, a * a + b * b]
      mod2 = a * a + b * b
      labels.append("complex pair")
      if b == 0:
        realpoles.add(a)
    if mult > 1:
      labels.append("multiple root")
    factors.extend([fac] * mult)
    inside.append(mod2 < 1)
    labels.append("root inside" if mod2 < 1 else ("root on circle" if mod2 == 1 else "root outside"))
  den = [g]
  for fac in factors:
    den = polymul(den, fac)
  num = [fr(case["ngain"])]
  nfac = []
  for s in case["zeros"]:
    s = fr(s)
    if s in realpoles:
      labels.append("colliding zero dropped")
      continue
    nfac.append([Fraction(1), -s])
    num = polymul(num, [Fraction(1), -s])
  qd = [T(c) for c in den]
  qn = [T(c) for c in num]
  route = case["route"]
  if route == "list":
    filt = ZFilter(qn, qd)
  elif route == "recip":
    filt = ZFilter(qn) / ZFilter(qd)
  elif route == "expr":
    dfilt = ZFilter(T(g))
    for fac in factors:
      dfilt = dfilt * sum((T(c) * z ** -i for i, c in enumerate(fac) if i), ZFilter(T(fac[0])))
    nfilt = ZFilter(T(num[0])) if not nfac else ZFilter(qn)
    filt = nfilt / dfilt
  elif route == "cascade":
    secs = [ZFilter(qn, [T(g)])] + [ZFilter([T(1)], [T(c) for c in fac]) for fac in factors]
    filt = CascadeFilter(secs)
  else:
    raise AssertionError(route)
  labels.append("numbers:" + ("Fraction" if T is Fraction else "Q"))
  return filt, den, all(inside), labels


def run_stable(case):
  filt, den, expect, labels = build_stable_case(case)
  got = parcor_stable(filt)
  if got is not True and got is not False:
    raise Violation("parcor_stable returned %r, not a bool" % (got,))
  if got != expect:
    raise Violation("parcor_stable says %s for denominator %s (leading coefficient %s); roots %s => %s"
                    % (got, show(den), den[0], describe_roots(case["roots"]),
                       "all strictly inside the unit circle" if expect else "not all inside the unit circle"),
                    site="parcor_stable:nonmonic" if den[0] != 1 else None)
  deg = len(den) - 1
  labels = sorted(set(labels))
  labels.append("expect stable" if expect else "expect not stable")
  labels.append("monic" if den[0] == 1 else "non-monic")
  if den[0] not in (1, -1):
    labels.append("gain other than +-1")
  if len(case["zeros"]):
    labels.append("numerator zeros")
  labels.append("route:" + case["route"])
  if deg == 0:
    labels.append("no poles")
  return {"nontrivial": deg >= 2, "labels": labels + ["degree %d" % min(deg, 9)]}


def describe_roots(groups):
  out = []
  for grp in groups:
    if grp[0] == "r":
      out.append("%s (x%d)" % (Fraction(grp[1]), grp[2]))
    else:
      out.append("%s+-%si (x%d)" % (Fraction(grp[1]), Fraction(grp[2]), grp[3]))
  return "{" + ", ".join(out) + "}"


# ------------------------------------------ float denominators of any order
# Plain float coefficients, every one of them the exact rational it stands for: the roots and the
# gain are dyadic (or a dyadic times a small integer) and the case keeps floats only when each
# product coefficient fits a double exactly.  The filter then has exactly the chosen poles.  What
# is left inexact is the arithmetic of the step-down itself; ``float_verdict`` bounds it.
_U = Fraction(1, 2 ** 53)
_SLACK = 8          # every rounding is counted this many times (operation order / extra roundings unknown)
_MARGIN = 64        # a coefficient decides only if | |k| - 1 | exceeds this many error bounds


def _ceil(e, bits=120):
  n = e * 2 ** bits
  return Fraction(-((-n.numerator) // n.denominator), 2 ** bits)


def float_verdict(A, e0):
  """Verdict of an |k| < 1 step-down run in double precision on the monic polynomial ``A``
  (exact Fractions) whose computed coefficients start with absolute error <= e0, when that
  verdict is certain for every order of the floating point operations; else None.

  Second returned value: the number of step-down steps made before the verdict fell."""
  A = [Fraction(v) for v in A]
  e = Fraction(e0)
  steps = 0
  for m in range(len(A) - 1, 0, -1):
    k = A[m]
    if abs(abs(k) - 1) <= _MARGIN * e:
      return None, steps
    if abs(k) > 1:
      return False, steps
    steps += 1
    M = max(abs(v) for v in A)
    D = 1 - k * k
    u = _SLACK * _U
    en = e * (1 + abs(k) + M + e) + 2 * u * (M + e) * (1 + abs(k) + e)   # error of A[i] - k.A[m-i]
    ed = 2 * abs(k) * e + e * e + 2 * u * (2 + 2 * abs(k) * e + e * e)    # error of 1 - k^2
    if 2 * ed >= D:
      return None, steps
    N = M * (1 + abs(k))
    e = _ceil((en * D + N * ed) / (D * (D - ed)) + u * (N + en) / (D - ed))
    A = [(A[i] - k * A[m - i]) / D for i in range(m)]
  return True, steps


_F_IN_R = [Fraction(n, d) for n, d in [(1, 2), (-1, 2), (1, 4), (-1, 4), (3, 4), (-3, 4), (1, 8), (-1, 8),
                                       (3, 8), (-3, 8), (5, 8), (-5, 8), (7, 8), (-7, 8)]]
_F_OUT_R = [Fraction(n, d) for n, d in [(5, 4), (-5, 4), (3, 2), (-3, 2), (2, 1), (-2, 1), (4, 1), (9, 8), (-9, 8),
                                        (-3, 1), (7, 4)]]
_F_IN_C = [Fraction(a, 4) for a in (-3, -2, -1, 0, 1, 2, 3)]
_F_GAIN = [Fraction(n, d) for n, d in [(2, 1), (-2, 1), (3, 1), (-3, 1), (4, 1), (-6, 1), (5, 2), (-5, 2), (10, 1),
                                       (1, 2), (-1, 2), (1, 4), (-1, 4), (3, 4), (1, 8), (-3, 8), (1, 16),
                                       (7, 1), (3, 2), (1, 1), (-1, 1)]]
_FROUTES = ["list", "recip", "cascade"]


def _fgroup(where):
  quarter = st.sampled_from(_F_IN_C)
  if where == "in":
    real = st.sampled_from(_F_IN_R)
    pair = st.tuples(quarter, quarter).filter(lambda ab: ab[1] != 0 and ab[0] ** 2 + ab[1] ** 2 < 1)
  elif where == "on":
    real = _unit
    pair = st.sampled_from([(Fraction(0), Fraction(1)), (Fraction(0), Fraction(-1))])
  else:
    real = st.sampled_from(_F_OUT_R)
    pair = st.tuples(st.sampled_from([Fraction(a, 4) for a in range(-6, 7)]),
                     st.sampled_from([Fraction(a, 4) for a in range(-6, 7) if a])).filter(
      lambda ab: ab[0] ** 2 + ab[1] ** 2 > 1)
  mult = st.sampled_from([1, 1, 1, 1, 2])
  return st.one_of(
    st.tuples(st.just("r"), real.map(Q), mult),
    st.tuples(st.just("c"), pair, mult).map(lambda t: ("c", Q(t[1][0]), Q(t[1][1]), t[2])))


def _degree(groups):
  return sum((1 if g[0] == "r" else 2) * g[-1] for g in groups)


def strat_stable_float(tier):
  dmax = 16 if tier == "quick" else 20

  def trim(groups):
    groups = list(groups)
    while _degree(groups) > dmax:
      groups.pop(0)
    return groups

  def roots(regime, size):
    lo, hi = {"low": (1, 5), "high": (6, 12)}[size]
    ins = st.lists(_fgroup("in"), min_size=lo, max_size=hi)
    if regime == "inside":
      return ins.map(trim)
    bad = _fgroup("on" if regime == "on" else "out")
    return st.tuples(ins, bad, st.integers(0, 12)).map(
      lambda t: trim(t[0][:t[2] % (len(t[0]) + 1)] + [t[1]] + t[0][t[2] % (len(t[0]) + 1):]))

  def case(rs):
    return st.fixed_dictionaries(dict(
      roots=roots(*rs),
      gain=st.sampled_from(_F_GAIN).map(Q),
      num=st.sampled_from([[1], [1], [Fraction(1, 2), Fraction(-1, 4)], [3, 0, 1]]).map(lambda v: [Q(c) for c in v]),
      route=st.sampled_from(_FROUTES)))
  return st.tuples(st.sampled_from(["inside"] * 6 + ["outside"] * 6 + ["on"]),
                   st.sampled_from(["high", "high", "high", "low"])).flatmap(case)


def run_stable_float(case):
  g = fr(case["gain"])
  factors = []
  inside = []
  for grp in case["roots"]:
    if grp[0] == "r":
      r, mult = fr(grp[1]), grp[2]
      fac, mod2 = [Fraction(1), -r], r * r
    else:
      a, b, mult = fr(grp[1]), fr(grp[2]), grp[3]
      fac, mod2 = [Fraction(1), -2 * a, a * a + b * b], a * a + b * b
    factors.extend([fac] * mult)
    inside.append(mod2 < 1)
  monic = [Fraction(1)]
  for fac in factors:
    monic = polymul(monic, fac)
  den = [g * c for c in monic]
  deg = len(den) - 1
  expect = all(inside)
  labels = []
  # floats only when every coefficient is the double it is written as
  exact = all(Fraction(float(c)) == c for c in den + monic)
  certain = None
  if exact:
    pow2 = g.numerator in (1, -1) and g.denominator & (g.denominator - 1) == 0 or \
           g.denominator == 1 and abs(g.numerator) & (abs(g.numerator) - 1) == 0
    e0 = Fraction(0) if pow2 else 4 * _U * max(abs(c) for c in monic)
    certain, steps = float_verdict(monic, e0)
    if certain is not None and certain != expect:
      raise AssertionError("step-down criterion contradicts the chosen roots")   # oracle self-check
  if certain is None:
    T = Q
    labels.append("exact numbers (float verdict not certain)" if exact else "exact numbers (not all doubles)")
  else:
    T = float
    labels.append("float coefficients")
    if g != 1:
      labels.append("float, non-unit gain")
      if deg >= 11:
        labels.append("float, non-unit gain, degree >= 11")
        if abs(g) > 1 and not expect and steps >= 10:
          labels.append("float, |gain| > 1, degree >= 11, decided after 10 steps or more")
        if abs(g) < 1 and expect and deg >= 12:
          labels.append("float, |gain| < 1, degree >= 12, stable")
  qd = [T(c) for c in den]
  qn = [T(fr(c)) for c in case["num"]]
  route = case["route"]
  if route == "list":
    filt = ZFilter(qn, qd)
  elif route == "recip":
    filt = ZFilter(qn) / ZFilter(qd)
  elif route == "cascade":   # gain section times monic section: each product g * c is exact (checked above)
    filt = CascadeFilter([ZFilter(qn, [T(g)]), ZFilter([T(1)], [T(c) for c in monic])])
  else:
    raise AssertionError(route)
  got = parcor_stable(filt)
  if got is not True and got is not False:
    raise Violation("parcor_stable returned %r, not a bool" % (got,))
  if got != expect:
    raise Violation("parcor_stable says %s for the %s denominator %s (leading coefficient %s, degree %d); roots %s => %s"
                    % (got, "float" if T is float else "exact", show(den), g, deg, describe_roots(case["roots"]),
                       "all strictly inside the unit circle" if expect else "not all inside the unit circle"))
  labels.append("expect stable" if expect else "expect not stable")
  labels.append("route:" + route)
  if deg >= 11:
    labels.append("degree >= 11")
  return {"nontrivial": deg >= 2, "labels": labels + ["degree %d" % deg]}


# ------------------------------------------------- Levinson on plain float lags
# The lags are doubles: the constructed rational lags times a power of two 2^s (any s the double
# range takes with room to spare, |s| <= 700), rounded to the nearest double.  The reference is the
# exact recursion on *those doubles*, so the statement is the property's own (rational lags, exact
# reflection coefficients, error = r0.prod(1-k^2)); what is inexact is the arithmetic of the
# recursion and of the step-down, bounded a priori below.  The recursion is homogeneous: lags, the
# sums sum_j a_j r_(m-j) and the prediction errors are lag-sized, coefficients are pure numbers, so
# with a power of two as the common factor every rounding is the same at every scale as long as
# nothing leaves the normal range - the bound is evaluated on the lags divided by 2^s.
_ETA = Fraction(1, 2 ** 300)   # per operation: a lag-sized product below 2^-1022 is off by at most
                               # 2^-1074 <= 2^-374 lag units for s >= -700
_FLOAT_OK = Fraction(1, 2 ** 20)   # floats are used when every bound is below this


def levinson_float_bounds(r, p):
  """Exact Levinson recursion of order p on the lags r (Fractions, r[0] > 0) together with bounds
  for a double precision run of it: (ks, A_p, E_p, e_A, e_E) - e_A bounds the absolute error of
  each computed coefficient of A_p, e_E that of the computed final error - or None when the
  recursion breaks down (E = 0, |k| >= 1) or the bound does.

  Model: delta = sum_j a_j r_(m-j) from computed coefficients, E_(m-1) either as the quadratic form
  sum_ij r_|i-j| a_i a_j of the computed coefficients or kept as E.(1-k^2) (the larger error
  counts), k = -delta/E, a_i += k.a_(m-i); every rounding counted _SLACK times."""
  u = _SLACK * _U
  A = [Fraction(1)]
  E = Fraction(r[0])
  e = Fraction(0)
  e_rec = Fraction(0)
  rmax = max(abs(v) for v in r)
  ks = []

  def quad_err(A, e):
    n = len(A)
    S = sum(abs(a) for a in A)
    return (rmax * (2 * e * (n - 1) * S + e * e * (n - 1) ** 2)
            + (n * n + 2) * u * rmax * (S + (n - 1) * e) ** 2 + _ETA)

  for m in range(1, p + 1):
    if E <= 0:
      return None
    eE = max(quad_err(A, e), e_rec)
    if 2 * eE >= E:
      return None
    M = max(abs(a) for a in A)
    delta = sum((A[j] * r[m - j] for j in range(m)), Fraction(0))
    ed = (e * sum(abs(r[m - j]) for j in range(1, m))
          + (m + 1) * u * sum((abs(A[j]) + e) * abs(r[m - j]) for j in range(m)) + _ETA)
    k = -delta / E
    if abs(k) >= 1:
      return None
    ek = _ceil(((ed + abs(k) * eE) / (E - eE)) * (1 + u) + u * abs(k) + _ETA)
    e = _ceil(e * (1 + abs(k)) + ek * (M + e) + 2 * u * (M + e) * (1 + abs(k) + ek) + _ETA)
    e_rec = _ceil(eE * (1 - k * k) + (E + eE) * (2 * abs(k) * ek + ek * ek)
                  + 3 * u * (E + eE) * (1 + 2 * abs(k) * ek + ek * ek) + _ETA)
    A = [(A[i] if i < len(A) else 0) + k * (A[m - i] if 0 <= m - i < len(A) else 0)
         for i in range(m + 1)]
    E *= 1 - k * k
    ks.append(k)
  if E <= 0:
    return None
  return ks, A, E, e, _ceil(max(quad_err(A, e), e_rec))


def stepdown_bounds(A, e0):
  """Error bounds of the coefficients k_p .. k_1 a double precision step-down yields from the monic
  polynomial ``A`` (exact Fractions, every |k| < 1) whose computed coefficients start with absolute
  error <= e0 (same operation model as ``float_verdict``); None when the bound breaks down."""
  A = [Fraction(v) for v in A]
  e = Fraction(e0)
  u = _SLACK * _U
  out = []
  for m in range(len(A) - 1, 0, -1):
    k = A[m]
    out.append(e)
    if m == 1:
      break
    M = max(abs(v) for v in A)
    D = 1 - k * k
    en = e * (1 + abs(k) + M + e) + 2 * u * (M + e) * (1 + abs(k) + e)
    ed = 2 * abs(k) * e + e * e + 2 * u * (2 + 2 * abs(k) * e + e * e)
    if D <= 0 or 2 * ed >= D:
      return None
    N = M * (1 + abs(k))
    e = _ceil((en * D + N * ed) / (D * (D - ed)) + u * (N + en) / (D - ed))
    A = [(A[i] - k * A[m - i]) / D for i in range(m)]
  return out


_SCALE_REGIMES = ["low", "high", "small", "low", "high", "zero", "low", "high", "small", "low"]


def _scale(t):
  regime, n = t
  return {"zero": 0, "small": n % 121 - 60, "low": -700 + n, "high": 700 - n}[regime]


def strat_levinson_float(tier):
  pmax = 6 if tier == "quick" else 8

  def dyadic(n, top=1):
    # top = 2: |k| <= 1/2 - the rounding bound stays narrow at the higher orders as well
    return st.sampled_from([2, 4, 8, 16] if top == 1 else [4, 8, 16]).flatmap(lambda d: st.tuples(
      st.lists(st.integers(1 - d, d - 1).map(lambda v: v // top), min_size=n, max_size=n),
      st.integers(1 - d, d - 1).map(lambda v: v // top).filter(lambda v: v != 0)).map(
        lambda t: [Q(Fraction(v, d)) for v in t[0] + [t[1]]]))

  def anyk(n):
    return st.tuples(st.lists(st.one_of(*(w(_kin, 4) + [st.just(Fraction(0))])), min_size=n, max_size=n),
                     _nz(_kin)).map(lambda t: [Q(k) for k in t[0] + [t[1]]])

  def kvec(t):
    return {"dyadic": dyadic(t[1]), "gentle": dyadic(t[1], 2), "any": anyk(t[1])}[t[0]]

  return st.fixed_dictionaries(dict(
    ks=st.tuples(st.sampled_from(["dyadic", "gentle", "any"]),
                 st.sampled_from([0, 1, 1] + list(range(2, pmax)) * 2)).flatmap(kvec),
    r0=st.one_of(st.fractions(min_value=Fraction(1, 8), max_value=6, max_denominator=8),
                 st.integers(1, 48).map(lambda n: Fraction(n, 8))).map(Q),
    scale=st.tuples(st.sampled_from(_SCALE_REGIMES), st.integers(0, 220)).map(_scale),
    order=st.sampled_from(["default", "given"]),
    # an earlier call on the same list object, which then held other lags (same scale)
    before=st.one_of(st.none(), st.fixed_dictionaries(dict(
      ks=st.lists(_kin, min_size=1, max_size=pmax).map(lambda v: [Q(k) for k in v]),
      r0=_R0.map(Q), order=st.sampled_from(["default", "given", "lower", "beyond"]), m=st.integers(0, 7),
      refill=st.sampled_from(["slice", "items"]))))))


def run_levinson_float(case):
  ks0 = [fr(k) for k in case["ks"]]
  p = len(ks0)
  s = case["scale"]
  sc = Fraction(2) ** s
  r = r_from_reflections(fr(case["r0"]), ks0)
  rf = [float(v * sc) for v in r]
  rx = [Fraction(x) / sc for x in rf]          # the lags the code is really given, in units of 2^s
  labels = ["scale 2^0" if s == 0 else "scale within 2^+-60" if abs(s) <= 60 else
            "scale 2^-700..2^-480" if s < 0 else "scale 2^480..2^700",
            "lags exact doubles" if rx == r else "lags rounded to doubles"]
  ref = levinson_float_bounds(rx, p)
  bk = stepdown_bounds(ref[1], ref[3]) if ref is not None else None
  if ref is None or bk is None or max(bk) > _FLOAT_OK or ref[4] > _FLOAT_OK * ref[2]:
    # no useful a-priori bound for doubles: the same lags as exact numbers, exact comparison
    res = run_levinson(dict(src="k", ks=case["ks"], r0=Q(fr(case["r0"]) * sc), order=case["order"]))
    return {"nontrivial": res["nontrivial"],
            "labels": labels + ["exact numbers (float bound too wide)"] + res["labels"]}
  ks, A, E, eA, eE = ref
  given = None
  earlier = None
  bef = case.get("before")
  what = "levinson_durbin(2^%d * %s as floats)" % (s, show(rx))
  if bef:
    kb = [fr(bef["ks"][i % len(bef["ks"])]) for i in range(p)]
    lb = [float(v * sc) for v in r_from_reflections(fr(bef["r0"]), kb)]
    given = list(lb)
    try:
      f0 = _call_ld(given, bef["order"], p + 1, bef["m"])
      earlier = (f0, list(f0.numerator), f0.error)
    except ParCorError:
      if bef["order"] != "beyond":     # only a zero extension may be singular
        raise
    if given != lb:
      raise Violation("levinson_durbin changed the caller's lag list %r" % (lb,))
    what += " [the same list object held %r in an earlier call, order %s]" % (lb, bef["order"])
    labels.append("float lags, same list held other lags before")
  given = _fill(given, rf, bef["refill"] if bef else "slice")
  filt = levinson_durbin(given) if case["order"] == "default" else levinson_durbin(given, p)
  if earlier is not None:
    if list(earlier[0].numerator) != earlier[1] or earlier[0].error != earlier[2]:
      raise Violation("%s changed the result of the earlier call: numerator %r -> %r, error %r -> %r"
                      % (what, earlier[1], list(earlier[0].numerator), earlier[2], earlier[0].error))
  if given != rf or any(type(v) is not float for v in given):
    raise Violation("%s changed the caller's lag list" % what)
  num = list(filt.numerator)
  if list(filt.denominator) != [1] or len(num) != p + 1:
    raise Violation("%s is not an FIR filter of order %d: numerator %r, denominator %r"
                    % (what, p, num, list(filt.denominator)))
  for i, (c, a) in enumerate(zip(num, A)):
    if not abs(fr(c) - a) <= eA:
      raise Violation("%s: coefficient of z^-%d is %r, the exact recursion on these lags gives %s = %r "
                      "(rounding bound %.3g)" % (what, i, c, a, float(a), float(eA)))
  err = filt.error
  if not abs(fr(err) / sc - E) <= eE:
    raise Violation("%s: error %r is %r * 2^%d; r0 * prod(1 - k^2) = %r * 2^%d (k = %s, rounding bound %.3g)"
                    % (what, err, float(fr(err) / sc), s, float(E), s,
                       [float(k) for k in ks], float(eE)))
  got, raised = collect(parcor(filt))
  if raised or len(got) != p:
    raise Violation("parcor(%s) yields %r%s; the recursion has %d reflection coefficients %s, all inside (-1, 1)"
                    % (what, got, " then ParCorError" if raised else "", p, [float(k) for k in ks]))
  for g, k, b in zip(got, ks[::-1], bk):
    if not abs(fr(g) - k) <= b:
      raise Violation("parcor(%s) yields %r; the reflection coefficients of the exact recursion on these lags "
                      "are, last first, %r (%r vs %r, rounding bound %.3g)"
                      % (what, got, [float(v) for v in ks[::-1]], g, float(k), float(b)))
  if list(filt.numerator) != num:
    raise Violation("parcor modified the filter it was given")
  labels.append("float lags")
  if abs(s) > 60:
    labels.append("float lags, scale 2^-700..2^-480" if s < 0 else "float lags, scale 2^480..2^700")
    if s < -545:
      labels.append("float lags, scale below 2^-545")
    if s > 520:
      labels.append("float lags, scale above 2^520")
  if p >= 4:
    labels.append("float lags, order >= 4")
  labels.append("order:" + ("default" if case["order"] == "default" else "given"))
  return {"nontrivial": p >= 2, "labels": labels + ["order %d" % min(p, 9)]}


# ---------------------------------------- first-order int / float denominators
# (49, 98, 103, 107: plain numbers g with g * (1 / g) != 1 in double precision - the leading
#  coefficient is divided out, not multiplied by a reciprocal)
_G1 = [1, -1, 2, -2, 4, 3, 0.5, -0.25, 8.0, 49, -49, 98, 103, 107, 49.0, -98.0]
_R1 = [0.5, -0.5, 0.25, -0.75, 1, -1, 1.0, 2, -2, 1.5, -4.0, 0.9990234375, 1.0009765625]


def grid_first_order(tier, shard, nshards):
  i = 0
  for g in _G1:
    for r in _R1:
      for route in ("expr", "list"):
        i += 1
        if i % nshards == shard:
          yield dict(g=g, r=r, route=route)


def run_first_order(case):
  g, r = case["g"], case["r"]
  a1 = -g * r                       # exact: g, r are small dyadic numbers
  if isinstance(a1, float) and a1.is_integer() and isinstance(g, int):
    a1 = int(a1)
  if Fraction(a1) != -Fraction(g) * Fraction(r):
    raise AssertionError("grid value not exact")
  if case["route"] == "expr":
    filt = 1 / (g + a1 * z ** -1)
  else:
    filt = ZFilter([1], [g, a1])
  expect = abs(Fraction(r)) < 1
  got = parcor_stable(filt)
  if got is not expect:
    raise Violation("parcor_stable(1 / (%r + %r z^-1)) is %r; the pole is %s => %s"
                    % (g, a1, got, Fraction(r), "stable" if expect else "not stable"),
                    site="parcor_stable:nonmonic" if g != 1 else None)
  return {"nontrivial": True,
          "labels": ["pole inside" if expect else "pole on/outside", "monic" if g == 1 else "non-monic",
                     "int coefficients" if isinstance(g, int) and isinstance(a1, int) else "float coefficients"]}


# ------------------------------------- float denominators of extreme magnitude
# Leading coefficients and poles far from 1 (2^-1060 .. 2^1000): every coefficient is an exact
# double (checked), the quotient by the leading coefficient is therefore exact, and each reflection
# coefficient of the exact step-down is either below 2^-50 or - the first one that is not - above
# 2^50 in modulus, so no rounding of the step-down can move it across 1.
_XG = [1.0, -2.5, 7.0, 2.0 ** -1060, -3 * 2.0 ** -1040, 2.0 ** 1000, -2.0 ** -500, 3e300, -5 * 2.0 ** 400]
_XPOLY = (
  [("r", v) for v in (2.0 ** 600, -3 * 2.0 ** 520, 1e200, -1e160, 3e307, 2.0 ** -600, -3 * 2.0 ** -700, 1e-200,
                      -2.0 ** -1000)] +
  [("pm", v) for v in (2.0 ** 300, 1e80, 5 * 2.0 ** 400, 2.0 ** -300, 3 * 2.0 ** -400)] +      # poles +v and -v
  [("c", a, b) for a, b in ((3 * 2.0 ** 300, 4 * 2.0 ** 300), (-6e77, 8e77), (2.0 ** 500, 2.0 ** 500),
                            (3 * 2.0 ** -300, -4 * 2.0 ** -300), (0.0, 2.0 ** -250))])           # a +- bi


def _extreme(g, poly):
  """(monic denominator, denominator, pole modulus scale) in exact numbers, or None when one of the
  coefficients is not a double (overflow, underflow)."""
  g = Fraction(g)
  if poly[0] == "r":
    r = Fraction(poly[1])
    monic, mod = [Fraction(1), -r], abs(r)
  elif poly[0] == "pm":
    r = Fraction(poly[1])
    monic, mod = [Fraction(1), Fraction(0), -r * r], abs(r)
  else:
    a, b = Fraction(poly[1]), Fraction(poly[2])
    monic, mod = [Fraction(1), -2 * a, a * a + b * b], max(abs(a), abs(b))
  den = [g * c for c in monic]

  def double(c):
    try:
      return Fraction(float(c)) == c
    except OverflowError:
      return False
  if not all(double(c) for c in den + monic):
    return None
  return monic, den, mod


def grid_extreme(tier, shard, nshards):
  i = 0
  for g in _XG:
    for poly in _XPOLY:
      if _extreme(g, poly) is None:
        continue                          # constructed, not filtered: only denominators of exact doubles
      for route in ("list", "recip"):
        i += 1
        if i % nshards == shard:
          yield dict(g=g, poly=list(poly), route=route)


def run_extreme(case):
  g = Fraction(case["g"])
  built = _extreme(case["g"], case["poly"])
  if built is None:
    raise Reject()
  monic, den, mod = built
  mods = [mod]
  ref, stop = stepdown_ref(monic)
  lim = Fraction(2) ** 50
  first_big = next((i for i, k in enumerate(ref) if abs(k) * lim >= 1), None)
  if stop or (first_big is not None and abs(ref[first_big]) < lim):
    raise AssertionError("grid value without a certain float verdict")
  expect = all(m < 1 for m in mods)
  if expect != (first_big is None):
    raise AssertionError("step-down criterion contradicts the chosen roots")   # oracle self-check
  fd = [float(c) for c in den]
  filt = ZFilter([1.], fd) if case["route"] == "list" else ZFilter([1.]) / ZFilter(fd)
  what = "parcor_stable(1 / %r)" % (fd,)
  got = parcor_stable(filt)
  if got is not expect:
    raise Violation("%s is %r; the poles have modulus about %r => %s"
                    % (what, got, float(mods[0]), "stable" if expect else "not stable"))
  # the highest reflection coefficient comes out of parcor before anything else happens
  first = next(parcor(ZFilter([float(c) for c in monic])))
  if type(first) is not float or Fraction(first) != monic[-1]:
    raise Violation("parcor(%r) first yields %r, the last coefficient is %r"
                    % ([float(c) for c in monic], first, float(monic[-1])))
  return {"nontrivial": len(monic) > 2,
          "labels": ["poles tiny" if expect else "poles huge",
                     "leading coefficient 1" if g == 1 else
                     "leading coefficient below 2^-400" if abs(g) < Fraction(1, 2 ** 400) else
                     "leading coefficient above 2^400" if abs(g) > 2 ** 400 else "leading coefficient ordinary",
                     "|k| beyond sqrt(max double)" if any(abs(k) > Fraction(2) ** 512 for k in ref) else "k**2 finite",
                     "degree %d" % (len(monic) - 1)]}


CLAUSES = [
  Clause("stepdown", strat_stepdown, run_stepdown, quick=1500, thorough=20000,
         floors={"src:ks": .2, "src:coeffs": .08, "ParCorError": .03, "some |k|>1": .1,
                 "zero inside": .05, "route:constden": .06},
         doc="parcor inverts the step-up recursion exactly; ParCorError exactly on |k| = 1; "
             "step-up of the yielded coefficients rebuilds the filter"),
  Clause("levinson", strat_levinson, run_levinson, quick=800, thorough=10000,
         floors={"src:k": .2, "src:data": .08, "last lag zero, default order": .03,
                 "zero lag inside, k non-zero": .01, "order:default": .2, "order:given": .12,
                 "history: same list held other lags before": .12,
                 "history: same lags, other call before (order sweep)": .025,
                 "order below the lags": .03, "order beyond the lags": .03, "order == number of lags": .012,
                 "some |k| > 1": .03, "error negative": .015, "last |k| = 1": .025, "r0 negative": .025},
         doc="parcor(levinson_durbin(r)) reversed == reflection coefficients, "
             "error == r0*prod(1-k^2), step-up rebuilds the filter"),
  Clause("stable", strat_stable, run_stable, quick=2000, thorough=24000,
         floors={"expect stable": .1, "root on circle": .05, "root outside": .05,
                 "non-monic": .2, "complex pair": .15, "multiple root": .08,
                 "gain other than +-1": .1, "numerator zeros": .12},
         shards={"quick": 16, "thorough": 32},
         doc="parcor_stable == every chosen root strictly inside the unit circle, for every gain"),
  Clause("stable_float", strat_stable_float, run_stable_float, quick=600, thorough=8000,
         floors={"float coefficients": .2, "float, non-unit gain, degree >= 11": .1,
                 "float, |gain| < 1, degree >= 12, stable": .015,
                 "float, |gain| > 1, degree >= 11, decided after 10 steps or more": .004,
                 "expect stable": .15, "expect not stable": .12},
         shards={"quick": 16, "thorough": 32},
         doc="parcor_stable on plain float denominators (each coefficient an exact double) of degree up to 16/20, "
             "any dyadic gain: == every chosen root strictly inside the unit circle"),
  Clause("levinson_float", strat_levinson_float, run_levinson_float, quick=700, thorough=8000,
         floors={"float lags": .25, "float lags, scale below 2^-545": .08, "float lags, scale above 2^520": .06,
                 "float lags, order >= 4": .1, "lags rounded to doubles": .08, "lags exact doubles": .15,
                 "float lags, same list held other lags before": .08},
         shards={"quick": 16, "thorough": 32},
         doc="levinson_durbin / parcor on plain float lags (exact rational lags times 2^s, |s| <= 700, as doubles): "
             "reflection coefficients, filter and error / 2^s agree with the exact recursion on those doubles "
             "within the a-priori rounding bound, at every scale"),
  Enumerated("first_order", grid_first_order, run_first_order, shards={"quick": 2, "thorough": 2},
             doc="int / float first-order denominators g - g.r z^-1 over a grid of gains and poles"),
  Enumerated("extreme_float", grid_extreme, run_extreme, shards={"quick": 2, "thorough": 2},
             doc="float denominators of degree 1 and 2 whose leading coefficient and poles are far from 1 "
                 "(2^-1060 .. 2^1000, reflection coefficients beyond sqrt(max double)): parcor_stable is a bool "
                 "equal to 'poles inside', parcor yields the highest coefficient first"),
]
