"""C15 - MultiKeyDict / StrategyDict stay coherent under any update history."""
import itertools
from hypothesis import strategies as st
from vlib.core import Clause, Enumerated, Violation

from audiolazy import MultiKeyDict, StrategyDict

ID = "C15"
RULE = ("histories = lists of plain-data steps (set single key / set key tuple / delete / "
        "delete by a key tuple (the tuple a group currently has, stale, partial, re-ordered or "
        "re-spelled ones: never a key, so KeyError and nothing changes) / assignment of an "
        "unhashable value (refused; the history goes on) / "
        "lookup / construct from what dict() takes: a dict, pairs, keywords, or another MultiKeyDict, which "
        "then goes on with a history of its own next to the copy; StrategyDict: item and decorator stores, "
        "refused stores of unhashable strategies, item and "
        "attribute deletes, calls with positional / keyword / no arguments); exhaustive over 3 keys x 2 values up to a bounded "
        "length plus Hypothesis histories over larger universes (hash-equal key and value "
        "spellings, duplicate keys in tuples); oracle = mkd_model (ordered groups) compared "
        "through the public API after every step; non-trivial = the history overwrites or "
        "deletes a key that shares its tuple with another key, or merges keys by equal "
        "value; distinct = distinct case hash")
ASSUMPTIONS = [
  "keys and values are hashable and compared with ==, so 1, 1.0 and True are one key / one value",
  "an unhashable value cannot be stored (the map is invertible): such an assignment is expected to raise TypeError, and, being no assignment, to leave a MultiKeyDict as it was",
  "a StrategyDict releases the names an assignment overwrites before it stores; when the store is then refused the check accepts both outcomes per overwritten name (still bound to its old strategy, or released like by del) and requires everything else of the statement: the refused object is nowhere, the default is the first strategy really stored (unset once it has lost all its names)",
  "MultiKeyDict(*args, **kwargs) holds what assigning the items of dict(*args, **kwargs) in that dict's order gives (the docstring: casting from another dict); positional sources are generated with each key once and no key repeated as a keyword, where this and one-by-one assignment of the given pairs agree; a MultiKeyDict given as the mapping contributes its (key tuple, value) items, i.e. a copy, and both dictionaries are then independent",
  "lookups use scalar keys (a tuple passed to d[...] addresses the stored tuple itself, documented as an IPython work-around)",
  "StrategyDict names are strings (two of them, copy and keys, shadow dict methods on purpose); attributes and the default are never assigned manually",
]


class Model(object):
  """Ordered groups [value, [keys]]; most recently assigned group last."""

  def __init__(self):
    self.groups = []

  def find(self, k):
    for g in self.groups:
      if k in g[1]:
        return g
    return None

  def set(self, key, value):
    keys = list(key) if isinstance(key, tuple) else [key]
    for g in self.groups:
      if g[0] == value:
        keys = g[1] + keys
        break
    ded = []
    for k in reversed(keys):
      if k not in ded:
        ded.append(k)
    keys = list(reversed(ded))
    for k in keys:
      g = self.find(k)
      if g:
        g[1].remove(k)
        if not g[1]:
          self.groups.remove(g)
    self.groups = [g for g in self.groups if g[0] != value]
    self.groups.append([value, keys])

  def delete(self, k):
    g = self.find(k)
    if not g:
      raise KeyError(k)
    g[1].remove(k)
    if not g[1]:
      self.groups.remove(g)


def _srt(xs):
  return sorted(xs, key=repr)


def compare(d, m, universe, values, ctx):
  """Everything observable through the public API must match the model."""
  items = list(dict.items(d))
  live = []
  for kt, v in items:
    if not isinstance(kt, tuple) or not kt:
      raise Violation("stored key %r is not a non-empty tuple %s" % (kt, ctx))
    live.extend(kt)
  if len(live) != len(set(live)):
    raise Violation("key tuples overlap: %r %s" % (items, ctx))
  vals = [v for _, v in items]
  if any(a == b for a, b in itertools.combinations(vals, 2)):
    raise Violation("a value owns two tuples: %r %s" % (items, ctx))
  exp = _srt((tuple(g[1]), g[0]) for g in m.groups)
  if _srt(items) != exp:
    raise Violation("items %r != model %r %s" % (_srt(items), exp, ctx))
  if len(d) != len(m.groups):
    raise Violation("len %d != %d %s" % (len(d), len(m.groups), ctx))
  if _srt(iter(d)) != _srt(g[0] for g in m.groups):
    raise Violation("iteration %r != values %r %s" % (list(d), [g[0] for g in m.groups], ctx))
  if _srt(dict.keys(d)) != _srt(tuple(g[1]) for g in m.groups):
    raise Violation("keys() %r %s" % (list(dict.keys(d)), ctx))
  for k in universe:
    g = m.find(k)
    try:
      val = d[k]
      kk = d.key2keys(k)
    except KeyError:
      if g is not None:
        raise Violation("d[%r] raised KeyError, model has %r %s" % (k, g, ctx))
      continue
    if g is None:
      raise Violation("d[%r] == %r but the key is dead %s" % (k, val, ctx))
    if val != g[0] or kk != tuple(g[1]):
      raise Violation("d[%r]=%r key2keys=%r, model %r %s" % (k, val, kk, g, ctx))
  for v in values:
    exp = ()
    for g in m.groups:
      if g[0] == v:
        exp = tuple(g[1])
    if d.value2keys(v) != exp:
      raise Violation("value2keys(%r)=%r, model %r %s" % (v, d.value2keys(v), exp, ctx))


RESPELL = {"1": 1.0, "1.0": True, "True": 1}     # by repr: 1 == 1.0 == True is one dict key


class _NoHash(object):
  """A callable with value equality and therefore without a hash."""
  __hash__ = None

  def __init__(self, i):
    self.i = i

  def __call__(self, *a, **kw):
    return ("never stored", self.i, a)

  def __eq__(self, o):
    return isinstance(o, _NoHash) and o.i == self.i

  def __ne__(self, o):
    return not self == o

  def __repr__(self):
    return "NoHash(%d)" % self.i


class _ListStrategy(list):
  """A callable that is a list (like CascadeFilter / ParallelFilter): not hashable."""
  def __call__(self, *a, **kw):
    return ("never stored list", list(self), a)


UNHASHABLE = ["callable with __eq__ and no __hash__", "callable list", "list", "dict"]


def unhashable(kind, i):
  return [_NoHash(i), _ListStrategy([i]), [i], {"i": i}][kind]


def step_mkd(d, m, op):
  """Apply one op to both; returns label facts."""
  e1 = e2 = None
  facts = set()
  if op[0] == "set":
    key, value = op[1], op[2]
    keys = list(key) if isinstance(key, tuple) else [key]
    for k in keys:
      g = m.find(k)
      if g is not None:
        facts.add("overwrite")
        if len(g[1]) > 1:
          facts.add("shared")
    if any(g[0] == value for g in m.groups):
      facts.add("merge-by-equal-value")
    d[key] = value
    m.set(key, value)
  elif op[0] == "deltup":
    # deletion by the key tuple the group of op[1] has right now (what keys(), key2keys(k) and
    # value2keys(v) hand out; (k,) for a key that is not there): a tuple is not one of the keys
    g = m.find(op[1])
    t = tuple(g[1]) if g is not None else (op[1],)
    if len(op) > 2 and op[2]:
      t = tuple(RESPELL.get(repr(k), k) for k in t)     # equal and hash-equal, spelled differently
    facts.add("delete-by-stored-tuple" if g is not None else "delete-by-tuple-of-missing-key")
    facts.add("delete-by-tuple")
    try:
      del d[t]
    except KeyError:
      e1 = "KeyError"
    e2 = "KeyError"
  elif op[0] == "set-refused":
    bad = unhashable(op[2], 1)
    facts.add("refused-assignment")
    try:
      d[op[1]] = bad
    except TypeError:
      pass
    else:
      raise Violation("op %r: the unhashable value %r was accepted" % (op, bad))
  elif op[0] == "del":
    g = m.find(op[1])
    if g is not None:
      facts.add("delete-last-key" if len(g[1]) == 1 else "shared")
    if isinstance(op[1], tuple):
      facts.add("delete-by-tuple")
      if any(tuple(x[1]) == op[1] for x in m.groups):
        facts.add("delete-by-stored-tuple")
    try:
      del d[op[1]]
    except KeyError:
      e1 = "KeyError"
    try:
      m.delete(op[1])
    except KeyError:
      e2 = "KeyError"
      facts.add("delete-missing")
  elif op[0] == "get":
    g = m.find(op[1])
    try:
      v = d[op[1]]
      if g is None or v != g[0]:
        raise Violation("lookup d[%r] -> %r, model %r" % (op[1], v, g))
    except KeyError:
      if g is not None:
        raise Violation("lookup d[%r] raised KeyError, model %r" % (op[1], g))
  if e1 != e2:
    raise Violation("op %r: real raised %r, model %r" % (op, e1, e2))
  return facts


# ---------------------------------------------------------------- exhaustive
K = ["a", "b", "c"]
V = [1, 2]
_keyargs = list(K) + [(a, b) for a in K for b in K]
OPS = ([("set", k, v) for k in _keyargs for v in V] + [("del", k) for k in K]
       + [("deltup", k) for k in K])      # del d[d.key2keys(k)] (del d[(k,)] when k is not there)


def ex_cases(tier, shard, nshards):
  maxlen = 4 if tier == "quick" else 5
  n = 0
  for L in range(1, maxlen + 1):
    if L <= 2:
      for seq in itertools.product(range(len(OPS)), repeat=L):
        n += 1
        if n % nshards == shard:
          yield list(seq)
    else:
      for i, head in enumerate(itertools.product(range(len(OPS)), repeat=2)):
        if i % nshards != shard:
          continue
        for tail in itertools.product(range(len(OPS)), repeat=L - 2):
          yield list(head + tail)


def run_ex(case):
  d = MultiKeyDict()
  m = Model()
  facts = set()
  for i in case:
    facts |= step_mkd(d, m, OPS[i])
  # every proper prefix is itself an enumerated history, so the full comparison
  # is needed only at the end (exceptions are compared at every step above)
  compare(d, m, K, V, "after %r" % ([OPS[i] for i in case],))
  return {"nontrivial": "shared" in facts or "merge-by-equal-value" in facts,
          "labels": ["len%d" % len(case)] + sorted(facts)}


# ---------------------------------------------------------------- Hypothesis MKD
KEYS = ["a", "b", 1, 1.0, True, 2, None, ("t",)]   # ("t",) only ever inside a tuple key
SCALAR_KEYS = ["a", "b", 1, 1.0, True, 2, None]
VALS = [1, 1.0, 2, "x", True, None]
KW_KEYS = ["a", "b", "c"]                            # keys that can be given as keyword arguments
UNIVERSE = SCALAR_KEYS + ["c"]
HOWS = ["dict", "dict", "pairs", "keywords", "dict+keywords", "pairs+keywords", "copy", "copy", "copy+keywords"]


def strat_mkd(tier):
  maxlen = 19 if tier == "quick" else 46
  key = st.sampled_from(SCALAR_KEYS)
  val = st.sampled_from(VALS)
  op = st.one_of(
    st.tuples(st.just("set"), key, val),
    st.tuples(st.just("set"), st.lists(key, min_size=1, max_size=3).map(tuple), val),
    st.tuples(st.just("set"), st.lists(key, min_size=1, max_size=3).map(tuple), val),
    st.tuples(st.just("del"), key),
    st.tuples(st.just("get"), key),
    # operations that fail and must change nothing (one alternative of six as a group: .map keeps
    # one_of from flattening it into the list above)
    st.one_of(
      # deletions by a tuple: the one a group has now (possibly re-spelled 1 / 1.0 / True), or any tuple
      # (one-element tuples of lone keys, stale, partial and re-ordered ones)
      st.tuples(st.just("deltup"), key, st.booleans()),
      st.tuples(st.just("deltup"), key, st.booleans()),
      st.tuples(st.just("del"), st.lists(key, min_size=1, max_size=3).map(tuple)),
      # an assignment the map has to refuse (unhashable value), to one key or a key tuple
      st.tuples(st.just("set-refused"), st.one_of(key, st.lists(key, min_size=1, max_size=3).map(tuple)),
                st.integers(0, len(UNHASHABLE) - 1)),
    ).map(tuple),
  )
  init = st.one_of(st.none(), st.lists(st.tuples(key, val), max_size=4))
  # how a dictionary that does not start empty is made (the constructor takes what dict() takes): from a
  # dict, from a list of pairs, from keywords, from a mapping / pairs plus keywords, or from another
  # MultiKeyDict (a copy: from then on two live dictionaries with a history each)
  how = st.sampled_from(HOWS)
  kw = st.lists(st.tuples(st.sampled_from(KW_KEYS), val), max_size=2)
  # (half of the histories have at least 4 steps: every prefix is compared, and the failing operations
  # above must not thin out the overwrites and merges per history)
  return st.fixed_dictionaries(dict(init=init, how=how, kw=kw,
                                    ops=st.one_of(st.lists(op, max_size=maxlen),
                                                  st.lists(op, min_size=4, max_size=maxlen))))


def run_mkd(case):
  m = Model()
  facts = set()
  src_d = src_m = None      # the dictionary d was copied from, and its model
  how = case.get("how", "dict")
  if case["init"] is None:
    d = MultiKeyDict()
  else:
    # The constructor takes what dict() takes and assigns the items of that dict in its order. The
    # positional part has each key once and no key that is also a keyword (for repeated keys "the items
    # of dict(...)" and "the pairs one after the other" would order a key tuple differently: not decided
    # by the statement).
    kw = {}
    if how.endswith("keywords"):
      for k, v in case.get("kw", []):
        kw[k] = v
    src = {}
    for k, v in case["init"]:
      if how.startswith("copy") or k not in kw:
        src[k] = v
    if how.startswith("copy"):
      # another MultiKeyDict with a history of its own (the pairs assigned one by one); its items are
      # (key tuple, value): disjoint tuples, distinct values, so their order does not matter
      src_d, src_m = MultiKeyDict(), Model()
      for k, v in case["init"]:
        src_d[k] = v
        src_m.set(k, v)
      compare(src_d, src_m, UNIVERSE, VALS, "in the dictionary to be copied, made from %r" % (case["init"],))
      d = MultiKeyDict(src_d, **kw)
      for g in src_m.groups:
        m.set(tuple(g[1]), g[0])
      facts.add("from-multikeydict")
    else:
      pos = [] if how == "keywords" else [src if how.startswith("dict") else list(src.items())]
      d = MultiKeyDict(*pos, **kw)
      if pos:
        for k, v in src.items():   # dict order is insertion order (deterministic)
          m.set(k, v)
        facts.add("from-dict" if how.startswith("dict") else "from-pairs")
    for k, v in kw.items():
      m.set(k, v)
    if kw:
      facts.add("from-keywords")
      if how != "keywords" and (src if src_d is None else len(src_d)):
        facts.add("from-mapping-and-keywords")
    ctx = "after construction (%s) from %r %r" % (how, case["init"] if src_d is not None else src, kw)
    compare(d, m, UNIVERSE, VALS, ctx)
    if src_d is not None:
      compare(src_d, src_m, UNIVERSE, VALS, "in the copied dictionary " + ctx)
  for n, op in enumerate(case["ops"]):
    if src_d is not None and n % 3 == 2:
      # two live dictionaries: every third step belongs to the history of the copied one
      facts |= step_mkd(src_d, src_m, op)
      facts.add("step on the copied dictionary")
    else:
      facts |= step_mkd(d, m, op)
    ctx = "after step %d of %r" % (n, case["ops"])
    compare(d, m, UNIVERSE, VALS, ctx)
    if src_d is not None:
      compare(src_d, src_m, UNIVERSE, VALS, "in the copied dictionary (%s; steps 2, 5, ... are its own) %s" % (how, ctx))
  if any(op[0] == "set" and isinstance(op[1], tuple) and len(set(op[1])) < len(op[1]) for op in case["ops"]):
    facts.add("duplicate-in-tuple")
  return {"nontrivial": "shared" in facts or "merge-by-equal-value" in facts,
          "labels": sorted(facts) or ["plain"]}


# ---------------------------------------------------------------- StrategyDict
NAMES = ["p", "q", "r", "s", "zz", "copy", "keys"]
INHERITED = [n for n in NAMES if hasattr(StrategyDict, n)]     # names that shadow a dict method
assert INHERITED == ["copy", "keys"]
NF = 4
# (positional arguments, keyword arguments) of a call, n standing for the number drawn with the step
CALLS = [lambda n: ((), {}),
         lambda n: ((), {"key": n}),
         lambda n: ((n,), {"key": 7}),
         lambda n: ((n, 7), {"a": None, "default": n, "self_": 0})]


def _result(i, a, kw):
  """What strategy i returns: which one it is and everything it was called with."""
  return (i, a) if not kw else (i, a, sorted(kw.items()))


def strat_sd(tier):
  maxlen = 16 if tier == "quick" else 40
  name = st.sampled_from(NAMES)
  names = st.lists(name, min_size=1, max_size=3).map(tuple)
  f = st.integers(0, NF - 1)
  op = st.one_of(
    st.tuples(st.just("set"), names, f),
    st.tuples(st.just("set1"), name, f),
    st.tuples(st.just("deco"), names, f, st.booleans()),
    st.tuples(st.just("del"), name),
    st.tuples(st.just("delattr"), name),
    # calling the dictionary: positional arguments only, or (every other one) in one of the CALLS forms
    # (no argument at all, keywords only, both); .map keeps one_of from flattening the pair
    st.one_of(st.tuples(st.just("call"), st.integers(0, 5)),
              st.tuples(st.just("callkw"), st.integers(0, 5), st.integers(0, len(CALLS) - 1))).map(tuple),
    # the attribute of a name replaced by hand with something that is no strategy (sd.p = 14): the library
    # keeps such an attribute when the item goes, and puts the item back in its place on delattr
    st.tuples(st.just("hand"), name, st.integers(0, 2)),
    # ... directly followed by the loss of that name's item (deleted, or assigned another strategy)
    st.tuples(st.just("hand then lose"), name, st.integers(0, 2), st.one_of(st.none(), f)),
    # operations that fail (one alternative of nine as a group: .map keeps one_of from flattening it)
    st.one_of(
      # a store the map has to refuse: the strategy is not hashable (item assignment to a name tuple / one
      # bare name, or the decorator); the caller catches the TypeError and the history goes on
      st.tuples(st.just("refused"), names, st.integers(0, len(UNHASHABLE) - 1),
                st.sampled_from(["item", "bare name", "decorator", "decorator keep_name"])),
      # deletion by the name tuple a strategy has right now: a tuple is not a name
      st.tuples(st.just("deltup"), name),
    ).map(tuple),
  )
  # pool: how many of the names the history uses (a small pool makes histories revisit the same name)
  return st.fixed_dictionaries(dict(named=st.booleans(),
                                    ops=st.one_of(st.lists(op, max_size=maxlen), st.lists(op, min_size=4, max_size=maxlen)),
                                    pool=st.sampled_from([2, 3, 7, 7]),
                                    values=st.sampled_from(["functions", "functions", "bound methods", "falsy callables"])))


class _Strategies(object):
  """Bound methods: every attribute access gives a new object that is == to the previous ones."""
  def m0(self, *a, **kw):
    return _result(0, a, kw)

  def m1(self, *a, **kw):
    return _result(1, a, kw)

  def m2(self, *a, **kw):
    return _result(2, a, kw)

  def m3(self, *a, **kw):
    return _result(3, a, kw)


class _Falsy(object):
  """A strategy object whose truth value is False (e.g. an empty pipeline that is also a container)."""
  def __init__(self, i):
    self.i = i

  def __call__(self, *a, **kw):
    return _result(self.i, a, kw)

  def __len__(self):
    return 0

  def __eq__(self, o):
    return isinstance(o, _Falsy) and o.i == self.i

  def __ne__(self, o):
    return not self == o

  def __hash__(self):
    return hash(("falsy", self.i))

  def __repr__(self):
    return "Falsy(%d)" % self.i


def run_sd(case):
  def mk(i):
    def f(*a, **kw):
      return _result(i, a, kw)
    return f
  methods = case.get("values") == "bound methods"
  holder = _Strategies()
  fixed = [mk(i) for i in range(NF)]
  # val(i): the i-th strategy; for bound methods a fresh, equal but not identical object each time
  val = (lambda i: getattr(holder, "m%d" % i)) if methods else (lambda i: fixed[i])
  if case.get("values") == "falsy callables":
    val = lambda i: _Falsy(i)          # equal, not identical, and bool(strategy) is False
  idx = lambda f: [i for i in range(NF) if val(i) == f][0]
  sd = StrategyDict("sd_under_test") if case["named"] else StrategyDict()
  m = Model()
  default = [None]      # index of the expected default
  hand = {}             # name -> attribute value assigned by hand over (or without) the strategy
  facts = set(["values:" + case.get("values", "functions")])

  def mdelete(k):
    g = m.find(k)
    if g is None:
      raise KeyError(k)
    last = len(g[1]) == 1
    m.delete(k)
    if last:
      facts.add("delete-last-key")
      if default[0] is not None and idx(g[0]) == default[0]:
        default[0] = None
        facts.add("default lost its names")
    else:
      facts.add("shared")

  def mset(names, i):
    for k in names:
      if hand.pop(k, None) is not None and m.find(k) is not None:   # assigning the item sets the attribute again
        facts.add("item deleted under a hand-made attribute")
      if m.find(k) is not None:
        facts.add("overwrite")
        mdelete(k)
    if any(g[0] == val(i) for g in m.groups):
      facts.add("merge-by-equal-value")
    m.set(tuple(names), val(i))
    if default[0] is None:
      default[0] = i
      if "default lost its names" in facts:
        facts.add("default re-chosen")

  pool = case.get("pool", len(NAMES))
  nm = lambda x: NAMES[NAMES.index(x) % pool]
  ops = []
  for o in case["ops"]:
    if o[0] == "hand then lose":
      ops.append(("hand", nm(o[1]), o[2]))
      ops.append(("del", nm(o[1])) if o[3] is None else ("set1", nm(o[1]), o[3]))
    elif o[0] in ("set", "deco", "refused"):
      ops.append((o[0], tuple(nm(x) for x in o[1])) + tuple(o[2:]))
    elif o[0] in ("call", "callkw"):
      ops.append(tuple(o))
    else:
      ops.append((o[0], nm(o[1])) + tuple(o[2:]))
  for n, op in enumerate(ops):
    ctx = "at step %d of %r (%s)" % (n, ops, case.get("values"))
    if op[0] == "set":
      sd[op[1]] = val(op[2])
      mset(op[1], op[2])
    elif op[0] == "set1":
      sd[op[1]] = val(op[2])
      mset((op[1],), op[2])
    elif op[0] == "deco":
      f = val(op[2])
      keep = op[3] or methods or case.get("values") == "falsy callables"   # no writable __name__ there
      ret = sd.strategy(*op[1], keep_name=keep)(f)
      if ret is not sd:
        raise Violation("strategy()(f) returned %r, not the dict %s" % (ret, ctx))
      if not keep and f.__name__ != op[1][0]:
        raise Violation("decorated function is named %r, expected %r %s" % (f.__name__, op[1][0], ctx))
      mset(op[1], op[2])
    elif op[0] == "refused":
      bad = unhashable(op[2], n)
      keep = op[3] == "decorator keep_name" or not hasattr(bad, "__dict__")   # no writable __name__ there
      facts.add("refused store")
      names = op[1][:1] if op[3] == "bare name" else op[1]
      live = [k for k in dict.fromkeys(names) if m.find(k) is not None]
      try:
        if op[3] == "item":
          sd[names] = bad
        elif op[3] == "bare name":
          sd[names[0]] = bad
        else:
          sd.strategy(*names, keep_name=keep)(bad)
      except TypeError:
        pass
      else:
        raise Violation("the unhashable strategy %r was accepted by %r %s" % (bad, op, ctx))
      # The statement does not say whether the names that were about to be overwritten keep their old
      # strategy; each of them either does or has been released as by del (and a default that lost all
      # its names this way is gone). Everything else is compared below as after any other step.
      for k in live:
        try:
          sd[k]
        except KeyError:
          had_hand = k in hand
          mdelete(k)
          facts.add("refused store released an overwritten name")
          if had_hand:
            facts.add("item deleted under a hand-made attribute")
      if default[0] is None:
        facts.add("no default after a refused store")
      for where, x in [("attribute", x) for x in vars(sd).values()] + [("item", x) for x in dict.values(sd)]:
        if x is bad:
          raise Violation("the refused strategy %r is kept as %s %s" % (bad, where, ctx))
    elif op[0] == "deltup":
      g = m.find(op[1])
      t = tuple(g[1]) if g is not None else (op[1],)
      facts.add("delete-by-tuple")
      try:
        del sd[t]
      except KeyError:
        pass
      else:
        raise Violation("del sd[%r] (a tuple, not a name) did not raise KeyError %s" % (t, ctx))
    elif op[0] == "hand":
      setattr(sd, op[1], ("by hand", op[2]))
      hand[op[1]] = ("by hand", op[2])
      facts.add("attribute replaced by hand")
    elif op[0] == "delattr" and op[1] in hand:
      # both an item and a different attribute: the attribute is put back (the item stays);
      # only the hand-made attribute: it is an ordinary attribute and goes
      delattr(sd, op[1])
      del hand[op[1]]
      facts.add("delattr on a hand-made attribute")
    elif op[0] in ("del", "delattr"):
      e1 = e2 = None
      try:
        if op[0] == "del":
          del sd[op[1]]
        else:
          delattr(sd, op[1])
      except KeyError:
        e1 = "KeyError"
      except AttributeError:
        e1 = "AttributeError"
      try:
        had_hand = op[1] in hand and m.find(op[1]) is not None
        mdelete(op[1])
        if had_hand:
          facts.add("item deleted under a hand-made attribute")
      except KeyError:
        e2 = "KeyError" if op[0] == "del" else "AttributeError"
        facts.add("delete-missing")
      if e1 != e2:
        raise Violation("%r: real raised %r, model %r %s" % (op, e1, e2, ctx))
    elif op[0] == "call":
      got = sd(op[1], 7)
      exp = NotImplemented if default[0] is None else (default[0], (op[1], 7))
      if got is not exp and got != exp:
        raise Violation("sd(%r, 7) -> %r, expected %r %s" % (op[1], got, exp, ctx))
    elif op[0] == "callkw":
      a, kw = CALLS[op[2]](op[1])
      got = sd(*a, **kw)
      exp = NotImplemented if default[0] is None else _result(default[0], a, kw)
      if got is not exp and got != exp:
        raise Violation("sd(*%r, **%r) -> %r, expected %r %s" % (a, kw, got, exp, ctx))
      facts.add("call without arguments" if not a and not kw else "call with keywords")
      if kw and default[0] is not None:
        facts.add("keywords reach the default strategy")
    # state comparison
    compare(sd, m, NAMES, [val(i) for i in range(NF)], ctx)
    for name in NAMES:
      g = m.find(name)
      if name in hand:
        # replaced by hand: the attribute is what the user put there, the item (if any) is the strategy
        if vars(sd).get(name, "<no instance attribute>") != hand[name]:
          raise Violation("name %r: the attribute set by hand (%r) reads %r %s"
                          % (name, hand[name], vars(sd).get(name, "<no instance attribute>"), ctx))
        if g is not None and not (sd[name] == g[0]):
          raise Violation("name %r (attribute replaced by hand): item %r, model strategy %d %s"
                          % (name, sd[name], idx(g[0]), ctx))
      elif g is not None:
        # "every name is an attribute equal to the item"
        if name not in vars(sd) or not (getattr(sd, name) == sd[name]) or not (sd[name] == g[0]):
          raise Violation("live name %r: attribute %r, item %r, model strategy %d %s"
                          % (name, vars(sd).get(name, "<no instance attribute>"), sd[name], idx(g[0]), ctx))
        if name in INHERITED:
          facts.add("name shadows a dict method")
      elif name in vars(sd) or (name not in INHERITED and hasattr(sd, name)):
        raise Violation("dead name %r still is an attribute (%r) %s" % (name, getattr(sd, name), ctx))
    if default[0] is None:
      if "default" in vars(sd):
        raise Violation("default should be unset, is %r %s" % (vars(sd)["default"], ctx))
      if sd.default(1) is not NotImplemented:
        raise Violation("fallback default does not return NotImplemented %s" % ctx)
    else:
      if "default" not in vars(sd) or not (vars(sd)["default"] == val(default[0])):
        raise Violation("default is %r, expected strategy %d %s" % (vars(sd).get("default"), default[0], ctx))
    if sorted(idx(x) for x in sd) != sorted(idx(g[0]) for g in m.groups):
      raise Violation("iteration over strategies %r %s" % ([idx(x) for x in sd], ctx))
  return {"nontrivial": bool(facts & {"shared", "merge-by-equal-value", "default re-chosen"}),
          "labels": sorted(facts) or ["plain"]}


CLAUSES = [
  Enumerated("mkd_exhaustive", ex_cases, run_ex, shards={"quick": 16, "thorough": 64},
             floors={"delete-by-stored-tuple": .1},
             doc="every history up to length 4 (quick) / 5 (thorough) over 30 ops on keys a,b,c and values 1,2 (assignments to a key / a key pair, deletion of a key, deletion by the key tuple a key's group has at that moment)"),
  Clause("mkd_histories", strat_mkd, run_mkd, quick=4000, thorough=60000, fuzz={"thorough": 80000},
         floors={"shared": .2, "merge-by-equal-value": .2, "overwrite": .2, "delete-last-key": .03,
                 "delete-by-stored-tuple": .12, "refused-assignment": .15,
                 "from-keywords": .04, "from-mapping-and-keywords": .02, "from-multikeydict": .05,
                 "step on the copied dictionary": .04},
         doc="random histories over hash-equal key/value spellings, tuple keys with duplicates, construction from a dict / "
             "pairs / keywords / another MultiKeyDict (then two live dictionaries, each with its own history), "
             "deletions by key tuples and refused (unhashable-value) assignments in between"),
  Clause("strategydict", strat_sd, run_sd, quick=3000, thorough=40000, fuzz={"thorough": 80000},
         floors={"shared": .15, "default re-chosen": .03, "merge-by-equal-value": .15,
                 "attribute replaced by hand": .2, "item deleted under a hand-made attribute": .03,
                 "refused store": .2, "no default after a refused store": .12,
                 "call with keywords": .09, "keywords reach the default strategy": .05},
         doc="StrategyDict: items == attributes, default selection and re-selection (a refused store of an unhashable "
             "strategy chooses nothing), call dispatch (positional, keyword and no arguments)"),
]
