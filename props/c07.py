"""C07 - Poly is an exact commutative ring with evaluation, composition and calculus."""
from fractions import Fraction as F
from hypothesis import strategies as st
from vlib.core import Clause, Violation
from vlib.q import Q

from audiolazy import Poly, x, lagrange

ID = "C07"
RULE = ("cases = Laurent polynomials given as (power, coefficient) lists with exact rational "
        "coefficients (powers -4..6, cancelling values included), a construction route "
        "(dict / list / x-expression), evaluation points, exponents 0..5, a plain number as left "
        "operand of + - * (spelled int / float / -0. / bool / Fraction / Q, zero and one weighted) and "
        "interpolation point sets with distinct abscissae; coefficients and points are handed over as Q, as "
        "plain Fractions or (where only + - * ** are involved) ints, sizes 0 / 1 / 2 / 3+ terms weighted, exponents "
        "0..7; histories: augmented assignments, hash then item / zero assignment (empty polynomial of several "
        "origins included), item assignment on results of operations on the shared x before interpolating; oracle = an independent dict-of-Fractions "
        "polynomial arithmetic (sum, product, power, derivative, integral, composition, "
        "evaluation) compared exactly, plus the ring laws themselves; non-trivial = both "
        "operands have at least 2 terms (at least 2 points for interpolation); distinct = "
        "distinct case hash")
ASSUMPTIONS = [
  "coefficients and points are Q (exact rationals absorbing float constants such as Poly.zero = 0.0 exactly), plain Fractions or ints; the 0.0 an empty polynomial evaluates to is taken at its exact value",
  "a hashed Poly may refuse item / zero assignment (TypeError); if it accepts, == must still imply equal hashes",
  "results of operations belong to the caller: assigning to an item of x ** 1, x * 1, +x ... must leave the module-level x alone (p ** 1 returning a multi-term p itself is not judged)",
  "evaluation at 0 only for true polynomials; composition p(q) only where it is a Laurent polynomial (p a true polynomial or q a monomial)",
  "exponents are non-negative ints (p**negative on multi-term polynomials is undefined by the property)",
]

fr = st.fractions(min_value=-4, max_value=4, max_denominator=6).map(Q)
fr_s = st.one_of(st.sampled_from([Q(1), Q(-1), Q(0), Q(1, 2), Q(2)]), fr)


def terms(minp=-4, maxp=6, maxn=6):
  def lst(lo):
    return st.lists(st.tuples(st.integers(minp, maxp), fr_s), min_size=lo, max_size=maxn,
                    unique_by=lambda t: t[0])
  # 1..3 non-zero terms: the sizes at which __pow__ / __call__ / __truediv__ change strategy (0, 1, 2, more)
  small = st.lists(st.tuples(st.integers(minp, maxp), fr_s.filter(lambda c: c != 0)), min_size=1,
                   max_size=min(3, maxn), unique_by=lambda t: t[0])
  return st.one_of(lst(0), lst(2), lst(2), small)


ROUTES = ["dict", "list", "expr", "setitem", "dict_floatkeys"]


def build(tl, route):
  """Real Poly through the chosen construction route."""
  d = dict(tl)
  if route == "list" and all(k >= 0 for k in d):
    n = max(d) + 1 if d else 0
    fill = Q(0) if all(isinstance(c, Q) for c in d.values()) else F(0)
    return Poly([d.get(k, fill) for k in range(n)])
  if route == "expr":
    p = Poly()
    for k, c in tl:
      p = p + c * x ** k
    return p
  if route == "setitem":
    p = Poly()
    for k, c in tl:
      p[k] = c
    return p
  if route == "dict_floatkeys":   # integer-valued float powers (e.g. computed as k / 2.) are integer powers
    return Poly(dict((float(k), c) for k, c in tl))
  return Poly(dict(d))


# The exact rational coefficients are handed over in one of several spellings.  Q absorbs a float it meets
# exactly (so a float constant inside the library goes unnoticed by it), a plain Fraction degrades to an
# inexact float on contact with one, an int turns int / int into a float: all three are "exact rational
# coefficients", and as long as the library only uses + - * and integer powers on them the results are the
# same exact rationals.
CSPELL = ["q", "fraction", "int|fraction"]


def respell(tl, cs):
  if cs == "fraction":
    return [(k, F(c)) for k, c in tl]
  if cs == "int|fraction":
    return [(k, int(F(c)) if F(c).denominator == 1 else F(c)) for k, c in tl]
  return list(tl)


def num(v, cs):
  """A point / scalar in the spelling that goes with the coefficients."""
  return v if cs == "q" else F(v)


def float_cannot_hold(tl):
  return any(c != 0 and F(c).denominator & (F(c).denominator - 1) for _, c in tl)


def model(tl):
  return {k: F(c) for k, c in tl if c != 0}


def m_add(a, b):
  r = dict(a)
  for k, c in b.items():
    r[k] = r.get(k, 0) + c
  return {k: c for k, c in r.items() if c != 0}


def m_neg(a):
  return {k: -c for k, c in a.items()}


def m_mul(a, b):
  r = {}
  for k1, c1 in a.items():
    for k2, c2 in b.items():
      r[k1 + k2] = r.get(k1 + k2, 0) + c1 * c2
  return {k: c for k, c in r.items() if c != 0}


def m_pow(a, n):
  r = {0: F(1)}
  for _ in range(n):
    r = m_mul(r, a)
  return r


def m_eval(a, v):
  return sum((c * F(v) ** k for k, c in a.items()), F(0))


def m_diff(a):
  return {k - 1: k * c for k, c in a.items() if k != 0}


def m_int(a):
  return {k + 1: c / (k + 1) for k, c in a.items()}


def m_comp(a, b):
  r = {}
  for k, c in a.items():
    if k >= 0:
      t = m_pow(b, k)
    else:  # b is a monomial
      (kb, cb), = b.items()
      t = {kb * k: cb ** k}
    r = m_add(r, {kk: c * cc for kk, cc in t.items()})
  return r


def got(p):
  return dict(p.terms())


def check(p, m, what):
  g = got(p)
  for k, c in g.items():
    if c == 0:
      raise Violation("%s stores a zero coefficient at power %r: %r" % (what, k, g))
  if len(p) != len(g):
    raise Violation("%s: len %d but %d terms" % (what, len(p), len(g)))
  if g != m:
    raise Violation("%s = %r, expected %r" % (what, g, m))


def eq(a, b, what):
  if not (a == b):
    raise Violation("%s: %r != %r" % (what, a, b))
  if a != b:
    raise Violation("%s: == and != both hold for %r, %r" % (what, a, b))


# ------------------------------------------------------------------ ring laws
# A plain number as the LEFT operand of + - * goes through the reflected dunders (__radd__, __rsub__,
# __rmul__).  The number is drawn as (spelling, exact value): every spelling of zero (0, 0., -0., False,
# Fraction(0), Q(0)) and of one (1, 1., True, Fraction(1), Q(1)) has its own weight next to ordinary values.
_Z1 = [Q(0), Q(1)]
LEFT_SPELLINGS = {
  "int": st.one_of(st.sampled_from(_Z1 + [Q(-1)]), st.integers(-4, 4).map(Q)),
  "float": st.one_of(st.sampled_from(_Z1 + [Q(-1)]), st.integers(-32, 32).map(lambda n: Q(n, 8))),
  "negzero": st.just(Q(0)),
  "bool": st.sampled_from([Q(0), Q(1)]),
  "fraction": st.one_of(st.sampled_from(_Z1), fr),
  "q": st.one_of(st.sampled_from(_Z1), fr),
}
left_scalar = st.sampled_from(["int", "int", "float", "float", "negzero", "bool", "fraction", "fraction", "q"]) \
                .flatmap(lambda s: st.tuples(st.just(s), LEFT_SPELLINGS[s]))


def spell_left(how, c):
  """The plain Python number handed to the operator (exact: floats are eighths only)."""
  fc = F(c)
  if how == "int":
    return int(fc)
  if how == "float":
    return float(fc)
  if how == "negzero":
    return -0.0
  if how == "bool":
    return bool(fc)
  if how == "fraction":
    return fc
  return c


def strat_ring(tier):
  return st.fixed_dictionaries(dict(
    p=terms(), q=terms(), r=terms(maxn=4), n=st.sampled_from(list(range(8))),
    routes=st.tuples(*[st.sampled_from(ROUTES)] * 3), left=left_scalar,
    cs=st.sampled_from(["q", "fraction", "fraction", "int|fraction"])))


def left_scalar_laws(p, P, how, c):
  """c + p, c - p, c * p with the plain number c on the left, against the reference arithmetic and the
  ring laws that tie them to the forward operators."""
  cc = spell_left(how, c)
  C = {0: F(c)} if c != 0 else {}
  tag = "%r (%s)" % (cc, type(cc).__name__)
  check(cc + p, m_add(C, P), "c+p with c = " + tag)
  check(p + cc, m_add(C, P), "p+c with c = " + tag)
  check(cc - p, m_add(C, m_neg(P)), "c-p with c = " + tag)
  check(p - cc, m_add(P, m_neg(C)), "p-c with c = " + tag)
  check(cc * p, m_mul(C, P), "c*p with c = " + tag)
  check(p * cc, m_mul(C, P), "p*c with c = " + tag)
  eq(cc + p, p + cc, "c+p vs p+c, c = " + tag)
  eq(cc * p, p * cc, "c*p vs p*c, c = " + tag)
  eq(cc - p, -(p - cc), "c-p vs -(p-c), c = " + tag)
  eq(cc - p, (-p) + cc, "c-p vs (-p)+c, c = " + tag)
  check((cc - p) + p, C, "(c-p)+p with c = " + tag)
  eq((cc - p) + p, Poly(cc), "(c-p)+p vs Poly(c), c = " + tag)
  check((cc + p) - p, C, "(c+p)-p with c = " + tag)
  check(cc - (cc - p), P, "c-(c-p) with c = " + tag)
  check(cc * (cc + p), m_mul(C, m_add(C, P)), "c*(c+p) with c = " + tag)
  eq(cc * (cc + p), cc * cc + cc * p, "c*(c+p) vs c*c+c*p, c = " + tag)
  labels = ["left scalar " + ("zero" if c == 0 else "one" if c == 1 else "other"),
            "left scalar spelled " + how]
  if c == 0 and len(P) >= 1:
    labels.append("zero on the left of a non-empty polynomial")
  return labels


def augmented(mk_p, q, r, P, Qm, R, n, k):
  """The operators spelled as augmented assignments: a += q is a = a + q whatever the library does to get there."""
  a = mk_p()
  a += q
  check(a, m_add(P, Qm), "a = p; a += q")
  a -= q
  check(a, P, "a = p; a += q; a -= q")
  a *= q
  check(a, m_mul(P, Qm), "a = p; a *= q")
  a = mk_p()
  a += -a
  check(a, {}, "a = p; a += -a")
  a = mk_p()
  a += r - mk_p()
  check(a, R, "a = p; a += r - p")
  a = mk_p()
  a -= a
  check(a, {}, "a = p; a -= a")
  a = mk_p()
  a **= n
  check(a, m_pow(P, n), "a = p; a **= %d" % n)
  a = mk_p()
  a /= k
  a += k
  a *= k
  check(a, m_add(P, {0: F(k) * F(k)}), "a = p; a /= k; a += k; a *= k")
  a = mk_p()
  h = hash(a)
  a += q
  check(a, m_add(P, Qm), "a = p; hash(a); a += q")
  if m_add(P, Qm) != P and hash(a) == h and a == mk_p():
    raise Violation("a = p; hash(a); a += q left a as it was")
  return ["augmented assignments" + (", all of p cancelled and replaced" if P and R else "")]


def run_ring(c):
  P, Qm, R = model(c["p"]), model(c["q"]), model(c["r"])
  cs = c.get("cs", "q")
  p, q, r = (build(respell(c[k], cs), rt) for k, rt in zip("pqr", c["routes"]))
  check(p, P, "p built by " + c["routes"][0])
  check(p + q, m_add(P, Qm), "p+q")
  check(q + p, m_add(P, Qm), "q+p")
  check(p - q, m_add(P, m_neg(Qm)), "p-q")
  check(-p, m_neg(P), "-p")
  check(+p, P, "+p")
  check(p * q, m_mul(P, Qm), "p*q")
  check(q * p, m_mul(P, Qm), "q*p")
  check(p * (q + r), m_mul(P, m_add(Qm, R)), "p*(q+r)")
  eq(p * (q + r), p * q + p * r, "distributive")
  eq((p + q) + r, p + (q + r), "+ associative")
  eq((p * q) * r, p * (q * r), "* associative")
  eq(p + q, q + p, "+ commutative")
  eq(p * q, q * p, "* commutative")
  z = p - p
  if len(z) != 0 or got(z) != {}:
    raise Violation("p-p is %r (len %d), not the empty polynomial" % (z, len(z)))
  n = c["n"]
  check(p ** n, m_pow(P, n), "p**%d" % n)
  pw = Poly(1)
  for _ in range(n):
    pw = pw * p
  eq(p ** n, pw, "p**n vs n-fold product")
  # scalars on either side
  k = num(Q(3, 2), cs)
  check(k * p, m_mul({0: F(k)}, P), "k*p")
  check(p * k, m_mul({0: F(k)}, P), "p*k")
  check(p + k, m_add(P, {0: F(k)}), "p+k")
  check(k - p, m_add({0: F(k)}, m_neg(P)), "k-p")
  check(p / k, {kk: cc / F(k) for kk, cc in P.items()}, "p/k")
  # the builtin sum starts with 0 + first
  check(sum([p, q, r]), m_add(m_add(P, Qm), R), "sum([p, q, r])")
  labels = []
  if "left" in c:
    # a float scalar next to plain Fraction / int coefficients is float arithmetic by Python's own rules:
    # those spellings of the scalar meet the Q spelling of p
    floatish = c["left"][0] in ("float", "negzero") and cs != "q"
    labels = left_scalar_laws(build(c["p"], c["routes"][0]) if floatish else p, P, *c["left"])
  if "cs" in c:
    labels += augmented(lambda: build(respell(c["p"], cs), c["routes"][0]), q, r, P, Qm, R, n, k)
  if any(kk < 0 for kk in list(P) + list(Qm)):
    labels.append("negative powers")
  if len(m_add(P, Qm)) < len(set(P) | set(Qm)) or len(m_mul(P, Qm)) < len({a + b for a in P for b in Qm}):
    labels.append("cancellation")
  if any(cc == 0 for _, cc in c["p"] + c["q"]):
    labels.append("zero given")
  labels.append("n=%d" % n)
  labels.append("coefficients spelled " + cs)
  labels.append("p has %s terms" % (len(P) if len(P) < 3 else "3+"))
  if cs != "q" and n >= 4 and len(P) >= 2 and float_cannot_hold(c["p"]):
    labels.append("power 4+ of a %s with plain Fraction coefficients no float can hold"
                  % ("binomial" if len(P) == 2 else "longer polynomial"))
  return {"nontrivial": len(P) >= 2 and len(Qm) >= 2, "labels": labels}


# ------------------------------------------------------------------ evaluation
def strat_eval(tier):
  return st.fixed_dictionaries(dict(
    p=terms(), q=terms(), v=fr, route=st.sampled_from(ROUTES),
    cs=st.sampled_from(["q", "fraction", "fraction", "int|fraction"])))


def run_eval(c):
  P, Qm = model(c["p"]), model(c["q"])
  cs = c.get("cs", "q")
  p, q = build(respell(c["p"], cs), c["route"]), build(respell(c["q"], cs), "dict")
  v = num(c["v"], cs)
  labels = ["coefficients and point spelled " + cs]
  if v == 0:
    # evaluation at zero is defined for true polynomials only
    P = {k: cc for k, cc in P.items() if k >= 0}
    Qm = {k: cc for k, cc in Qm.items() if k >= 0}
    p, q = Poly(dict(respell(P_to_q(P), cs))), Poly(dict(respell(P_to_q(Qm), cs)))
    labels.append("at zero")
  ep, eq_ = m_eval(P, v), m_eval(Qm, v)
  for name, val, exp in [("p(v)", p(v), ep), ("q(v)", q(v), eq_),
                         ("(p*q)(v)", (p * q)(v), ep * eq_),
                         ("(p+q)(v)", (p + q)(v), ep + eq_)]:
    if val != exp:
      raise Violation("%s = %r, expected %r (p=%r q=%r v=%r)" % (name, val, exp, P, Qm, v))
  # (the empty polynomial evaluates to its zero, the float 0.0: taken at its exact value on the oracle's side)
  ex = lambda y: Q(y) if isinstance(y, float) else y
  if (p * q)(v) != ex(p(v)) * ex(q(v)) or (p + q)(v) != ex(p(v)) + ex(q(v)):
    raise Violation("evaluation is not a homomorphism at %r for %r, %r" % (v, P, Qm))
  if len(P):
    h1, h0, ha = p(v, horner=True), p(v, horner=False), p(v, horner="auto")
    if not (h1 == h0 == ha == ep):
      raise Violation("schemes disagree: horner=%r direct=%r auto=%r expected %r (p=%r v=%r)"
                      % (h1, h0, ha, ep, P, v))
    ks = sorted(P)
    if any(b - a > 1 for a, b in zip(ks, ks[1:])):
      labels.append("sparse Horner merge step")
  else:
    if p(v) != 0:
      raise Violation("empty polynomial evaluates to %r" % (p(v),))
    labels.append("empty")
  if any(k < 0 for k in P):
    labels.append("negative powers")
  # a Poly may be changed item by item until it is hashed: evaluation, printing and terms() must
  # follow the change (nothing remembered from the first evaluation)
  if v != 0:
    str(p)
    newk = max(list(P) + [0]) + 2
    oldk = min(P) if P else None
    p[newk] = num(Q(5, 3), cs)
    P2 = dict(P)
    P2[newk] = F(5, 3)
    if oldk is not None:
      p[oldk] = num(Q(0), cs)        # assigning the zero removes the term
      del P2[oldk]
    if dict(p.terms()) != P2:
      raise Violation("after item assignment terms() gives %r, expected %r" % (dict(p.terms()), P2))
    for kind in (True, False, "auto"):
      val = p(v, horner=kind) if P2 else p(v)
      if val != m_eval(P2, v):
        raise Violation("after p[%d] = 5/3%s: p(%r, horner=%r) = %r, expected %r (terms now %r)"
                        % (newk, "" if oldk is None else " and p[%d] = 0" % oldk, v, kind, val, m_eval(P2, v), P2))
    labels.append("mutated after evaluation")
  if len(labels) == 1:
    labels.append("dense")
  return {"nontrivial": len(P) >= 2 and len(Qm) >= 2, "labels": labels}


def P_to_q(m):
  return [(k, Q(c)) for k, c in m.items()]


# ------------------------------------------------------------------ composition
def strat_comp(tier):
  mono = st.tuples(st.integers(-3, 3), fr.filter(lambda c: c != 0)).map(lambda t: [t])
  return st.one_of(
    st.fixed_dictionaries(dict(kind=st.just("poly(any)"), p=terms(0, 5, 4), q=terms(-2, 3, 4), v=fr,
                               cs=st.sampled_from(["q", "fraction"]))),
    st.fixed_dictionaries(dict(kind=st.just("laurent(monomial)"), p=terms(-3, 4, 5), q=mono, v=fr,
                               cs=st.sampled_from(["q", "fraction"]))))


def run_comp(c):
  P, Qm = model(c["p"]), model(c["q"])
  cs = c.get("cs", "q")
  p, q = build(respell(c["p"], cs), "dict"), build(respell(c["q"], cs), "dict")
  if c["kind"] == "laurent(monomial)" and not Qm:
    return {"nontrivial": False, "labels": ["degenerate"]}
  comp = p(q)
  if not isinstance(comp, Poly):
    raise Violation("p(q) is a %s" % type(comp).__name__)
  check(comp, m_comp(P, Qm), "p(q)")
  v = num(c["v"], cs)
  if v != 0 or all(k >= 0 for k in list(Qm) + list(m_comp(P, Qm))):
    if v == 0:
      qv = m_eval({k: cc for k, cc in Qm.items()}, v)
    else:
      qv = m_eval(Qm, v)
    if qv != 0 or all(k >= 0 for k in P):
      lhs = comp(v)
      rhs = p(q(v))
      if lhs != rhs or lhs != m_eval(P, qv):
        raise Violation("p(q)(v)=%r, p(q(v))=%r, expected %r (p=%r q=%r v=%r)"
                        % (lhs, rhs, m_eval(P, qv), P, Qm, v))
  labels = [c["kind"], "coefficients spelled " + cs]
  if cs != "q" and len(Qm) == 2 and max(list(P) + [0]) >= 4 and float_cannot_hold(c["q"]):
    labels.append("power 4+ of a plain Fraction binomial inside p(q)")
  return {"nontrivial": len(P) >= 2 and (len(Qm) >= 2 or c["kind"] != "poly(any)"),
          "labels": labels}


# ------------------------------------------------------------------ calculus
def strat_calc(tier):
  return st.fixed_dictionaries(dict(p=terms(), q=terms(), n=st.integers(0, 3),
                                    a=fr, b=fr, cs=st.sampled_from(["q", "fraction"])))


def run_calc(c):
  P, Qm = model(c["p"]), model(c["q"])
  cs = c.get("cs", "q")     # ints are left out here: int / int in integrate() is a float by Python's rules
  p, q = build(respell(c["p"], cs), "dict"), build(respell(c["q"], cs), "expr")
  a, b = num(c["a"], cs), num(c["b"], cs)
  check(p.diff(), m_diff(P), "p.diff()")
  d = P
  for _ in range(c["n"]):
    d = m_diff(d)
  check(p.diff(c["n"]), d, "p.diff(%d)" % c["n"])
  eq((a * p + b * q).diff(), a * p.diff() + b * q.diff(), "diff linear")
  eq((p * q).diff(), p.diff() * q + p * q.diff(), "product rule")
  labels = ["coefficients spelled " + cs]
  if -1 in P:
    try:
      p.integrate()
    except ValueError:
      labels.append("x^-1 refuses to integrate")
    else:
      raise Violation("integrate() accepted a x^-1 term: %r" % P)
  else:
    check(p.integrate(), m_int(P), "p.integrate()")
    eq(p.integrate().diff(), p, "diff undoes integrate")
    labels.append("integrated")
  # order / values for true polynomials
  if all(k >= 0 for k in P):
    exp_order = max(P) if P else 0
    if p.order != exp_order:
      raise Violation("order %r, expected %r for %r" % (p.order, exp_order, P))
    vals = list(p.values())
    exp_vals = [P.get(k, 0) for k in range(exp_order + 1)] if P else []
    if vals != exp_vals:
      raise Violation("values() %r, expected %r" % (vals, exp_vals))
    labels.append("true polynomial")
  else:
    try:
      p.order
    except AttributeError:
      pass
    else:
      raise Violation("order defined for a Laurent polynomial %r" % P)
  for k in range(-5, 8):
    if p[k] != P.get(k, 0):
      raise Violation("p[%d] = %r, expected %r" % (k, p[k], P.get(k, 0)))
  # a Poly owns its terms: the mapping it was built from, a second Poly built from the same
  # mapping, and p.diff(0) are all independent of it
  from collections import OrderedDict
  od = OrderedDict((k, cc) for k, cc in respell(c["p"], cs))
  before = list(od.items())
  pa, pb = Poly(od), Poly(od)
  if list(od.items()) != before:
    raise Violation("Poly(mapping) modified the caller's mapping: %r -> %r" % (before, list(od.items())))
  pb[17] = Q(5)
  od[18] = Q(0)
  od[19] = Q(3)
  d0 = pa.diff(0)
  d0[21] = Q(7)
  check(pa, P, "a Poly after its source mapping, its twin and its diff(0) were modified")
  P21 = dict(P)
  P21[21] = F(7)
  check(d0, P21, "p.diff(0) with one more term")
  return {"nontrivial": len(P) >= 2 and len(Qm) >= 2, "labels": labels}


# ------------------------------------------------------------------ == / hash
def spell(c, how):
  fc = F(c)
  if how == "float" and fc.denominator in (1, 2, 4, 8):
    return float(fc)
  if how == "int" and fc.denominator == 1:
    return int(fc)
  if how == "fraction":
    return fc
  return c


EMPTY_ORIGINS = ["built", "Poly()", "a-a", "a*0", "0*a", "constant.diff()", "a.diff(9)"]


def empty_from(origin, a):
  """The empty polynomial as the result it usually is (a = some other polynomial)."""
  if origin == "Poly()":
    return Poly()
  if origin == "a-a":
    return a - a
  if origin == "a*0":
    return a * 0
  if origin == "0*a":
    return 0 * a
  if origin == "constant.diff()":
    return (a - a + Q(7, 3)).diff()
  if origin == "a.diff(9)":
    return Poly(dict((abs(k), cc) for k, cc in a.terms())).diff(9)
  return None


def store_after_hash(p, M, k, cval, zero, what):
  """p has been hashed (it may sit in a dict).  An item / zero assignment afterwards is either refused with
  TypeError, leaving p as it was, or - if the library accepts it - p == q must go on implying
  hash(p) == hash(q) for the polynomial p has become."""
  hash(p)
  table = {p: what}
  labels = []
  try:
    p[k] = cval
    M2 = dict(M)
    M2.pop(k, None)
    if cval != 0:
      M2[k] = F(cval)
    labels.append("store after hash accepted")
  except TypeError:
    M2 = dict(M)
    labels.append("store after hash refused")
  if got(p) != M2:
    raise Violation("%s: after hash() and p[%d] = %r (%s) the terms are %r, expected %r"
                    % (what, k, cval, labels[-1], got(p), M2))
  try:
    p.zero = zero
  except TypeError:
    pass
  if got(p) != M2:
    raise Violation("%s: after hash() and p.zero = %r the terms are %r, expected %r" % (what, zero, got(p), M2))
  twin = Poly(dict((kk, Q(cc)) for kk, cc in sorted(M2.items())))
  if not (p == twin) or (p != twin) or not (twin == p):
    raise Violation("%s: p = %r is not == an independent Poly of the same terms" % (what, got(p)))
  if hash(p) != hash(twin) or twin not in {p} or p not in {twin}:
    raise Violation("%s: after hash(p), then p[%d] = %r (%s): p == q for q = Poly(%r) but hash(p) = %d, "
                    "hash(q) = %d" % (what, k, cval, labels[-1], M2, hash(p), hash(twin)))
  if M2 == M and table.get(twin) != what:
    raise Violation("%s: p unchanged and == q, but q does not find p's entry in a dict" % what)
  return labels


def number_comparisons(p, M, numbers, how):
  """p against bare numbers, from either side: == exactly when p is that constant (the empty polynomial is 0);
  a polynomial with any other term is a different polynomial whatever its constant term is."""
  for value in numbers:
    n = spell(Q(value), how)
    expect = set(M) <= {0} and M.get(0, 0) == value
    obs = (p == n, n == p, not (p != n), not (n != p))
    if obs != (expect,) * 4:
      raise Violation("p = %r against the number %r (%s): p == n, n == p, not p != n, not n != p are %r; "
                      "p %s that constant" % (got(p), n, type(n).__name__, obs, "is" if expect else "is not"))
  if not set(M) <= {0}:
    return ["non-constant polynomial compared with numbers" + (" (a single term)" if len(M) == 1 else "")]
  return ["constant polynomial compared with numbers"]


def strat_eqh(tier):
  nothing = st.lists(st.tuples(st.integers(-4, 6), st.just(Q(0))), max_size=3, unique_by=lambda t: t[0])
  return st.fixed_dictionaries(dict(
    p=st.one_of(terms(), terms(), terms(), nothing), origin=st.sampled_from(EMPTY_ORIGINS),
    store=st.tuples(st.integers(-3, 8), fr_s), q=terms(), relation=st.sampled_from(["same", "same", "independent", "one coefficient", "one power"]),
    r1=st.sampled_from(ROUTES), r2=st.sampled_from(ROUTES),
    s1=st.sampled_from(["q", "float", "int", "fraction"]),
    s2=st.sampled_from(["q", "float", "int", "fraction"]),
    zero2=st.sampled_from(["default", 0, 0.0]), idx=st.integers(0, 5)))


def run_eqh(c):
  tp = [(k, cc) for k, cc in c["p"]]
  rel = c["relation"]
  if rel == "same":
    tq = list(reversed(tp))
  elif rel == "independent":
    tq = c["q"]
  elif rel == "one coefficient" and tp:
    i = c["idx"] % len(tp)
    tq = [(k, cc + 1 if j == i else cc) for j, (k, cc) in enumerate(tp)]
  elif rel == "one power" and tp:
    i = c["idx"] % len(tp)
    tq = [((k + 11) if j == i else k, cc) for j, (k, cc) in enumerate(tp)]
  else:
    tq = list(tp)
    rel = "same"
  p = build([(k, spell(cc, c["s1"])) for k, cc in tp], c["r1"])
  q = build([(k, spell(cc, c["s2"])) for k, cc in tq], c["r2"])
  if c["zero2"] != "default":
    q = Poly(q, zero=c["zero2"])
  origin = "built"
  if not model(tp) and "origin" in c:
    origin = c["origin"]
    e = empty_from(origin, build(c["q"], c["r2"]))
    p = p if e is None else e
    check(p, {}, "the empty polynomial as " + origin)
  expect = model(tp) == model(tq)
  e, ne = (p == q), (p != q)
  if e is not expect or ne is not (not expect):
    raise Violation("p=%r q=%r: == is %r, != is %r, polynomials %s"
                    % (got(p), got(q), e, ne, "equal" if expect else "differ"))
  if (q == p) is not expect:
    raise Violation("== is not symmetric for %r, %r" % (got(p), got(q)))
  if expect and hash(p) != hash(q):
    raise Violation("equal polynomials hash differently: %r (%s) vs %r (%s)"
                    % (got(p), c["s1"], got(q), c["s2"]))
  if hash(p) != hash(Poly(p)) or not (p == p.copy()):
    raise Violation("copy is not equal / hash-equal: %r" % got(p))
  # comparison with a bare number
  M = model(tp)
  if set(M) <= {0}:
    num = M.get(0, 0)
    if not (p == num) or (p != num):
      raise Violation("constant polynomial %r does not equal the number %r" % (got(p), num))
  labels = number_comparisons(p, M, [M.get(0, F(0)), F(0)] + ([F(c["store"][1])] if "store" in c else []), c["s2"])
  labels += [rel, "equal" if expect else "unequal", c["s1"] + "/" + c["s2"]]
  if "store" in c:
    # every p above has been hashed; what happens to a later assignment must keep == and hash coherent
    k, cval = c["store"]
    z = 0 if c["zero2"] == "default" else c["zero2"]
    labels += store_after_hash(p, M, k, cval, z, "p (%s)" % ("empty, " + origin if not M else "%d terms" % len(M)))
    labels.append("hashed, then assigned to: %s" % ("the empty polynomial" if not M else "a non-empty polynomial"))
    if not M:
      labels.append("empty polynomial obtained as " + origin)
  return {"nontrivial": len(model(tp)) >= 2, "labels": labels}


# ------------------------------------------------------------------ Lagrange
# lagrange.poly - like every expression a user writes - is built from the ONE module-level polynomial x.
# Results of operations on x belong to whoever computed them: item assignment on such a result (legal on a
# never-hashed Poly) is part of the history before an interpolation is requested.
X_OPS = {
  "x**1": lambda: x ** 1,
  "x**True": lambda: x ** True,
  "x**1.0": lambda: x ** 1.0,
  "x**Poly(1)": lambda: x ** Poly(1),
  "x*1": lambda: x * 1,
  "1*x": lambda: 1 * x,
  "x*Poly(1)": lambda: x * Poly(1),
  "x+0": lambda: x + 0,
  "0+x": lambda: 0 + x,
  "x+Poly()": lambda: x + Poly(),
  "Poly()+x": lambda: Poly() + x,
  "x-0": lambda: x - 0,
  "+x": lambda: +x,
  "-(-x)": lambda: -(-x),
  "x/1": lambda: x / 1,
  "x/Poly(1)": lambda: x / Poly(1),
  "x(x)": lambda: x(x),
  "x.copy()": lambda: x.copy(),
  "Poly(x)": lambda: Poly(x),
  "x.diff(0)": lambda: x.diff(0),
  "sum([x])": lambda: sum([x]),
  "(x**2).diff()/2": lambda: (x ** 2).diff() / 2,
}
X_OP_NAMES = sorted(X_OPS)


def x_terms():
  return dict(x.terms())


def restore_x():
  """Only ever does something when the library let the shared x be changed (a violation is then on its way)."""
  if x_terms() == {1: 1} and x.zero == 0:
    return
  try:
    for k in list(x_terms()):
      if k != 1:
        x[k] = x.zero
    x[1] = 1
    x.zero = 0.
  except TypeError:
    pass
  if x_terms() != {1: 1} or x.zero != 0:
    x._data.clear()
    x._data[1] = 1
    x._zero = 0.


def strat_lag(tier):
  pts = st.lists(st.tuples(fr, fr), min_size=1, max_size=6, unique_by=lambda t: t[0])
  xhist = st.one_of(st.none(), st.tuples(st.sampled_from(X_OP_NAMES), st.integers(-2, 3), fr_s),
                    st.tuples(st.sampled_from(["x**1", "x**True", "x**1.0", "x**Poly(1)", "x*1", "x+0", "+x", "x(x)"]),
                              st.integers(-2, 3), fr_s))
  return st.fixed_dictionaries(dict(pts=pts, t=fr, as_iter=st.booleans(), prime=st.booleans(), xhist=xhist,
                                    cs=st.sampled_from(["q", "fraction"])))


def run_lag(c):
  try:
    return run_lag_(c)
  finally:
    restore_x()


def x_history(opname, k, cval):
  r = X_OPS[opname]()
  check(r, {1: F(1)}, opname)
  r[k] = cval
  R = {1: F(1)}
  R.pop(k, None)
  if cval != 0:
    R[k] = F(cval)
  check(r, R, "%s after r[%d] = %r" % (opname, k, cval))
  return "%s, then r[%d] = %r on the result r" % (opname, k, cval)


def run_lag_(c):
  cs = c.get("cs", "q")     # ints are left out: the interpolator divides differences of abscissae
  pts = [(num(a, cs), num(b, cs)) for a, b in c["pts"]]
  hist = None
  if c.get("xhist"):
    hist = x_history(*c["xhist"])
  if c.get("prime", True):
    # an earlier call on the same abscissae spelled as floats / ints must not influence the exact one
    spelled = [((float(a) if F(a).denominator in (1, 2, 4) else a), float(b)) for a, b in pts]
    lagrange.func(list(spelled))(float(c["t"]))
    lagrange.poly([(int(a) if F(a).denominator == 1 else a, b) for a, b in spelled])
  mk = (lambda: iter(pts)) if c["as_iter"] else (lambda: list(pts))
  lp = lagrange.poly(mk())
  lf = lagrange.func(mk())
  for xk, yk in pts:
    a, b = lp(xk), lf(xk)
    if a != yk or b != yk:
      raise Violation("interpolator misses (%r, %r): poly gives %r, func gives %r, points %r%s"
                      % (xk, yk, a, b, pts, " (history: %s)" % hist if hist else ""))
  t = num(c["t"], cs)
  if lagrange(mk())(t) != lf(t):
    raise Violation("lagrange(points) and lagrange.func(points) differ at %r" % (t,))
  # independent Lagrange evaluation
  exp = F(0)
  for j, (xj, yj) in enumerate(pts):
    term = F(yj)
    for m, (xm, _) in enumerate(pts):
      if m != j:
        term *= F(t - xm) / F(xj - xm)
    exp += term
  if lp(t) != exp or lf(t) != exp:
    raise Violation("at %r: poly %r func %r expected %r, points %r" % (t, lp(t), lf(t), exp, pts))
  if isinstance(lp, Poly):
    deg = [k for k, _ in lp.terms()]
    if deg and (min(deg) < 0 or max(deg) > len(pts) - 1):
      raise Violation("interpolating polynomial has powers %r for %d points" % (deg, len(pts)))
  labels = ["%d points" % len(pts), "points spelled " + cs]
  if hist:
    # ... and the variable every later expression is built from is still x
    if x_terms() != {1: 1}:
      raise Violation("after %s the module-level x is %r: expressions built from x, lagrange.poly included, "
                      "are now wrong" % (hist, x_terms()))
    labels.append("after a result of an operation on the shared x was assigned to")
    labels.append("shared x history through " + ("a first power" if "**" in c["xhist"][0] else "another operation"))
  return {"nontrivial": len(pts) >= 2, "labels": labels}


def strat_long(tier):
  lo = st.sampled_from([0, 0, -5])           # true polynomials twice as often as Laurent ones
  big = lo.flatmap(lambda a: st.lists(st.tuples(st.integers(a, 60), fr_s), min_size=34, max_size=46,
                                      unique_by=lambda t: t[0]))
  return st.fixed_dictionaries(dict(p=big, q=st.sampled_from([0, 0, 1]).flatmap(lambda k: terms() if k else big),
                                    v=fr.filter(lambda t: t != 0),
                                    routes=st.tuples(st.sampled_from(ROUTES), st.sampled_from(ROUTES)),
                                    spell=st.sampled_from(["fraction", "int", "float"]),
                                    idx=st.integers(0, 45)))


def creation(a):
  """Powers in creation order (used for labels only, never for a verdict)."""
  return [k for k, _ in a.terms(sort=False)]


def eq_hash_key(a, b, what):
  """a and b are the same polynomial reached by two ways: ==, !=, hash and dict / set membership agree."""
  if not (a == b) or not (b == a):
    raise Violation("%s: the two %d-term results are not ==" % (what, len(a)))
  if (a != b) or (b != a):
    raise Violation("%s: == and != both hold (%d terms)" % (what, len(a)))
  if hash(a) != hash(b):
    raise Violation("%s: equal polynomials (%d terms) hash differently: %d vs %d; powers in creation order "
                    "start %r / %r" % (what, len(a), hash(a), hash(b), creation(a)[:8], creation(b)[:8]))
  if {a: what}.get(b) != what or b not in {a} or len({a, b}) != 1:
    raise Violation("%s: equal polynomials (%d terms) are different dict keys / set members" % (what, len(a)))
  return creation(a) != creation(b)


def differ(a, b, what):
  if (a == b) or (b == a) or not (a != b) or not (b != a):
    raise Violation("%s: different %d-term polynomials compare ==%r !=%r" % (what, len(a), a == b, a != b))


def run_long(c):
  """Polynomials with dozens of terms (beyond any small-size fast path) obey the same exact arithmetic."""
  P, Qm = model(c["p"]), model(c["q"])
  # plain Fractions here, not Q: a float zero used as accumulator or filler would be absorbed
  # exactly by Q, while a plain Fraction degrades to float on contact with it
  plain = lambda tl: [(k, F(cc)) for k, cc in tl]
  p, q = build(plain(c["p"]), c["routes"][0]), build(plain(c["q"]), c["routes"][1])
  for r in (p * q, p + q):
    if any(isinstance(cc, float) for _, cc in r.terms()):
      raise Violation("a float coefficient appeared in the product / sum of polynomials with Fraction coefficients")
  check(p * q, m_mul(P, Qm), "p*q (%d x %d terms)" % (len(P), len(Qm)))
  check(q * p, m_mul(P, Qm), "q*p")
  check(p + q, m_add(P, Qm), "p+q")
  check(p - q, m_add(P, m_neg(Qm)), "p-q")
  check(p * p, m_mul(P, P), "p*p")
  eq(p * (q + p), p * q + p * p, "distributive (long)")
  v = c["v"]
  if (p * q)(v) != m_eval(P, v) * m_eval(Qm, v):
    raise Violation("(p*q)(v) != p(v)*q(v) for long polynomials at %r" % (v,))
  labels = ["both long" if len(Qm) >= 33 else "long x short"]
  # p == q implies hash(p) == hash(q) and not p != q -- also for long polynomials whose terms came into
  # being in a different order: operands swapped, the other side of a ring law, typed in from the other
  # end / in another numeric spelling, rebuilt from the independent model in ascending order
  how = c.get("spell", "fraction")
  tp, tq = plain(c["p"]), plain(c["q"])
  back = lambda tl, rt: build([(k, spell(cc, how)) for k, cc in reversed(tl)], rt)
  asc = lambda m: Poly(dict(sorted(m.items())))
  desc = lambda m: Poly(dict(sorted(m.items(), reverse=True)))
  pq, qp, pp = p * q, q * p, p * p
  pairs = [
    ("p+q vs q+p", p + q, q + p),
    ("p*q vs q*p", pq, qp),
    ("p*(q+p) vs p*q+p*p", p * (q + p), pq + pp),
    ("(p+q)-q vs p", (p + q) - q, build(tp, c["routes"][0])),
    ("(q+p)-q vs p typed in backwards", (q + p) - q, back(tp, c["routes"][1])),
    ("p vs p typed in backwards (%s, %s)" % (c["routes"][1], how), build(tp, c["routes"][0]), back(tp, c["routes"][1])),
    ("p ascending vs descending powers", asc(P), desc(P)),
    ("p*q vs the same product typed in by ascending power", pq, asc(m_mul(P, Qm))),
    ("q+p vs the same sum typed in by descending power", q + p, desc(m_add(P, Qm))),
    ("p*p vs (-p)*(-p)", pp, (-p) * (-p)),
  ]
  reordered = sum(1 for what, a, b in pairs if eq_hash_key(a, b, what) and len(a) >= 33)
  labels.append("eq/hash on %s long pairs with different creation order" % ("6+" if reordered >= 6 else "<6"))
  if how != "fraction":
    labels.append("eq/hash across numeric spellings")
  # ... and long polynomials that differ in a single term (early or late in creation order) are not ==
  i = c.get("idx", 0) % len(tp)
  ki, ci = tp[i]
  one_coeff = [(k, cc + 1 if j == i else cc) for j, (k, cc) in enumerate(tp)]
  one_power = [((k + 100) if j == i else k, cc) for j, (k, cc) in enumerate(tp)]
  if ci != 0:
    differ(build(tp, c["routes"][0]), back(one_coeff, c["routes"][1]), "one coefficient of %d changed" % len(tp))
    differ(build(tp, c["routes"][0]), back(one_power, "dict"), "one power of %d moved" % len(tp))
    differ(pq + F(1, 7) * x ** ki, qp, "p*q plus one more term vs q*p")
    labels.append("single-term difference " + ("late" if i >= 24 else "early"))
  return {"nontrivial": len(P) >= 33, "labels": labels}


CLAUSES = [
  Clause("long_polynomials", strat_long, run_long, quick=60, thorough=1200,
         floors={"both long": .2, "eq/hash on 6+ long pairs with different creation order": .3,
                 "eq/hash across numeric spellings": .2},
         doc="products / sums of polynomials with 34..46 terms and non-dyadic rational coefficients stay exact; "
             "the same long polynomial reached in different term-creation orders is ==, not !=, hash-equal "
             "and one dict key"),
  Clause("ring", strat_ring, run_ring, quick=1800, thorough=40000,
         floors={"negative powers": .2, "cancellation": .02, "left scalar zero": .1, "left scalar one": .05,
                 "left scalar other": .08, "zero on the left of a non-empty polynomial": .08,
                 "left scalar spelled int": .06, "left scalar spelled float": .06, "left scalar spelled negzero": .03,
                 "left scalar spelled bool": .03, "left scalar spelled fraction": .03, "left scalar spelled q": .02,
                 "coefficients spelled q": .1, "coefficients spelled fraction": .1,
                 "coefficients spelled int|fraction": .04, "p has 0 terms": .02, "p has 1 terms": .05,
                 "p has 2 terms": .08, "p has 3+ terms": .1,
                 "power 4+ of a binomial with plain Fraction coefficients no float can hold": .004,
                 "power 4+ of a longer polynomial with plain Fraction coefficients no float can hold": .012,
                 "augmented assignments, all of p cancelled and replaced": .2},
         doc="+ - * ** vs independent arithmetic; commutative/associative/distributive; no stored zero; "
             "plain numbers (every spelling of zero and one included) as LEFT operands of + - * obey "
             "c-p == -(p-c), (c-p)+p == c, c+p == p+c, c*p == p*c; coefficients handed over as Q, as plain "
             "Fractions (which a float inside the library would turn into inexact floats) or ints, 0/1/2/3+ "
             "terms, exponents 0..7; the operators spelled as augmented assignments (+= -= *= **= /=) give "
             "the same polynomials, cancellation included"),
  Clause("evaluation", strat_eval, run_eval, quick=1500, thorough=40000,
         floors={"negative powers": .2, "sparse Horner merge step": .1,
                 "coefficients and point spelled fraction": .1, "coefficients and point spelled int|fraction": .05},
         doc="homomorphism; Horner == direct == independent sum; coefficients and points as Q, plain Fractions, ints"),
  Clause("composition", strat_comp, run_comp, quick=900, thorough=20000,
         floors={"poly(any)": .2, "laurent(monomial)": .2, "coefficients spelled fraction": .1,
                 "power 4+ of a plain Fraction binomial inside p(q)": .002},
         doc="p(q) vs independent composition and p(q)(v) == p(q(v)); outer powers up to 5, Q or plain Fractions"),
  Clause("calculus", strat_calc, run_calc, quick=1200, thorough=30000,
         floors={"integrated": .3, "coefficients spelled fraction": .1},
         doc="diff linear + product rule, diff undoes integrate, order, values, item access; Q or plain Fractions"),
  Clause("eq_hash", strat_eqh, run_eqh, quick=1500, thorough=30000,
         floors={"equal": .2, "unequal": .2, "hashed, then assigned to: the empty polynomial": .05,
                 "hashed, then assigned to: a non-empty polynomial": .2,
                 "constant polynomial compared with numbers": .06,
                 "non-constant polynomial compared with numbers": .15,
                 "non-constant polynomial compared with numbers (a single term)": .04},
         doc="== / != / hash over construction routes and numeric spellings; every polynomial (the empty one as "
             "Poly(), a-a, a*0, 0*a, a derivative) is hashed and then assigned to (item, zero): refused, or == still "
             "implies equal hashes; a polynomial against bare numbers from either side is == only when it is that "
             "constant"),
  Clause("lagrange", strat_lag, run_lag, quick=800, thorough=15000,
         floors={"1 points": .02, "points spelled fraction": .1,
                 "after a result of an operation on the shared x was assigned to": .15,
                 "shared x history through a first power": .04, "shared x history through another operation": .08},
         doc="lagrange.poly / lagrange.func / lagrange pass through their points and agree with an independent "
             "evaluation, for Q and plain Fraction points, also after a result of a value-preserving operation on "
             "the module-level x (x**1, x*1, x+0, +x, x(x), copies ...) was changed by item assignment"),
]
