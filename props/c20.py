"""C20 - Sample-wise analysis tools equal their defining formulas.

maverage x3, accumulate x3, amdf, envelope x3, clip, zcross, unwrap, each
compared with a direct evaluation of its formula in exact arithmetic (Q).
"""
import math
from fractions import Fraction
from hypothesis import strategies as st
from vlib.core import Clause, Violation
from vlib.q import Q

import audiolazy
from audiolazy import (maverage, amdf, envelope, clip, zcross, unwrap, Stream,
                       lazy_itertools)

ID = "C20"
RULE = ("cases = (tool, exact rational samples, parameters, input route) drawn "
        "by Hypothesis; oracle = the tool's defining formula evaluated directly "
        "in exact rational arithmetic (float constants the code computes itself, "
        "1./size and the envelope pole radius, are taken at their exact double "
        "value); non-trivial = more samples than the window/lag and the tool's "
        "interesting branch fired (window slid / crossing / jump corrected / "
        "clip active); unwrap_wide builds sequences move by move on int / plain Fraction / Q "
        "(jumps beyond 2**53, jumps on or a hair off a half-step tie); long_inputs describes "
        "inputs of thousands of samples as (seed, palette) and checks maverage / amdf against "
        "sliding exact window sums and envelope against the one-pole recursion in double precision; clip, zcross and "
        "accumulate also get int / plain Fraction samples (types that do not absorb a float) with float / int / "
        "Fraction parameters and samples on or a hair beside the limits / thresholds; clip's input may be the Stream "
        "an earlier clip call returned, changed in place since; one maverage / amdf object serves several signals; "
        "distinct = distinct case hash")
ASSUMPTIONS = [
  "samples are exact rationals (Q absorbs the library's float constants exactly); "
  "float behaviour is only sampled through envelope.rms (sqrt) with tolerance 1e-12",
  "maverage equality across strategies is exact when zero == 0 or size is a power "
  "of two (1./size exact); otherwise the strategies may differ by zero*(1-size*fl(1/size)) "
  "and are compared within 1e-12*(sum|x|+|zero|)",
  "amdf with a non-zero `zero`: both x[<0] and the earlier |difference| samples are "
  "taken as `zero` (the property's two sentences composed literally)",
  "envelope: pole radius R = x - sqrt(x**2 - 1), x = 2 - cos(cutoff), recomputed by "
  "the oracle in double precision; y[n] = (1-R) u[n] + R y[n-1], y[-1] = 0",
  "unwrap is only called with at least one sample (the empty case is undefined "
  "by the property); hysteresis >= 0, step > 0, max_delta >= 0",
  "long_inputs: int samples only with power-of-two windows and int zero (the library's float "
  "arithmetic is then exact); Q samples with any window; maverage.fir is left out for Q samples "
  "when size*n > 40000 (cost); envelope is not run on long inputs (exact denominators grow by 53 bits per sample)",
  "clip: the property fixes idempotence, bounds and (design) identity inside the "
  "limits; ValueError exactly when both limits are given and high < low",
  "clip given the Stream an earlier clip call returned: what that Stream yields now (after Stream.map / append / "
  "abs / skip / limit, which work in place) is the input; its expected content is the reference clip of the first "
  "input followed by the same operations on a list",
  "accumulate: every strategy is exact on Q, int and plain Fraction samples, except accumulate.z called with its "
  "default float memory (zero=0.) on plain Fraction / beyond-2**53 int samples, which adds in double precision by "
  "design of ZFilter: compared within 1e-12*sum|x| there",
  "long envelope inputs are int samples: library and oracle both work in double precision (tolerance 1e-9 * "
  "max(1, peak of |x| or x^2), envelope.rms compared by its square)",
]

TOL = 1e-12


# --------------------------------------------------------------------------
# generators
# --------------------------------------------------------------------------
def qv(lo=-4, hi=4, den=5):
  return st.one_of(
    st.fractions(min_value=lo, max_value=hi, max_denominator=den).map(Q),
    st.fractions(min_value=lo, max_value=hi, max_denominator=den).map(Q),
    st.integers(lo, hi).map(Q),
    st.fractions(min_value=lo, max_value=hi, max_denominator=97).map(Q))


def xs(tier, min_size=0, **kw):
  return st.lists(qv(**kw), min_size=min_size,
                  max_size=16 if tier == "quick" else 40)


def weighted(*pairs):
  """one_of with weights: (weight, strategy), ...  (st.one_of drops a strategy object given twice, so repeating
  an object there does not raise its share)"""
  idx = [i for i, (w, _) in enumerate(pairs) for _ in range(w)]
  return st.sampled_from(idx).flatmap(lambda i: pairs[i][1])


ROUTES = ["list", "iter", "stream", "gen"]
_route = st.sampled_from(ROUTES)


def feed(x, route):
  if route == "list":
    return list(x)
  if route == "iter":
    return iter(list(x))
  if route == "stream":
    return Stream(list(x))
  if route == "gen":
    return (v for v in list(x))
  raise AssertionError(route)


_zero = st.sampled_from(["default", "int0", "q0", "q", "q", "q"]).flatmap(
  lambda k: st.just(k) if k != "q" else qv().filter(lambda v: v != 0))


def zero_of(z):
  """-> (kwargs for the call, exact value)"""
  if z == "default":
    return {}, Q(0)
  if z == "int0":
    return {"zero": 0}, Q(0)
  if z == "q0":
    return {"zero": Q(0)}, Q(0)
  return {"zero": z}, z


def pulled(stream, n, what):
  """list(stream) but bounded: the tools are one output per input."""
  out = []
  for v in stream:
    out.append(v)
    if len(out) > n + 2:
      raise Violation("%s: more than %d outputs for %d inputs" % (what, n + 2, n))
  return out


def near(a, b, tol):
  return abs(Fraction(a) - Fraction(b)) <= tol


# --------------------------------------------------------------------------
# maverage
# --------------------------------------------------------------------------
def window_sum(x, n, size, zero):
  """sum of the last `size` samples ending at n, earlier samples = zero"""
  return sum((x[k] if k >= 0 else zero for k in range(n - size + 1, n + 1)), Fraction(0))


def strat_maverage(tier):
  return st.fixed_dictionaries(dict(
    x=xs(tier), size=st.integers(1, 6 if tier == "quick" else 9), zero=_zero,
    route=_route))


MAV = [("deque", lambda s: maverage.deque(s)),
       ("recursive", lambda s: maverage.recursive(s)),
       ("feedback", lambda s: maverage["feedback"](s)),
       ("fir", lambda s: maverage.fir(s)),
       ("default", lambda s: maverage(s))]


def run_maverage(case):
  x, size, route = case["x"], case["size"], case["route"]
  kw, zero = zero_of(case["zero"])
  c = Fraction(1. / size)            # the double the code computes, taken exactly
  n = len(x)
  sums = [window_sum(x, i, size, zero) for i in range(n)]
  exp_c = [c * s for s in sums]
  mean = [s / size for s in sums]
  scale = sum((abs(v) for v in x), Fraction(0)) + abs(zero)
  tol = Fraction(TOL) * scale
  exact = zero == 0 or (size & (size - 1)) == 0
  outs = {}
  for name, mk in MAV:
    got = pulled(mk(size)(feed(x, route), **kw), n, "maverage." + name)
    if len(got) != n:
      raise Violation("maverage.%s(%d): %d outputs for %d inputs (x=%r zero=%r)"
                      % (name, size, len(got), n, x, zero))
    outs[name] = got
    for i, (g, e, m) in enumerate(zip(got, exp_c, mean)):
      if exact and g != e:
        raise Violation("maverage.%s(%d)(x, zero=%r)[%d] = %r, expected fl(1/size)*window sum = %r (x=%r)"
                        % (name, size, zero, i, g, e, x))
      if not near(g, e, tol) or not near(g, m, tol):
        raise Violation("maverage.%s(%d)(x, zero=%r)[%d] = %r, mean of last %d samples is %r (x=%r)"
                        % (name, size, zero, i, g, size, m, x))
  # one filter object applied to two signals that are alive together and read alternately:
  # each output must be the mean of *its own* last samples
  if n >= 2:
    x2 = [v + 1 for v in reversed(x)]
    sums2 = [window_sum(x2, i, size, zero) for i in range(n)]
    for name, mk in MAV:
      f = mk(size)
      sa, sb = iter(f(feed(x, route), **kw)), iter(f(feed(x2, route), **kw))
      ga, gb = [], []
      for i in range(n):
        ga.append(next(sa))
        gb.append(next(sb))
      again = pulled(f(feed(x, route), **kw), n, "maverage.%s (third use)" % name)
      if len(again) != n:
        raise Violation("maverage.%s(%d) object used a third time: %d outputs for %d inputs" % (name, size, len(again), n))
      for lbl, got_i, ss in (("first", ga, sums), ("second", gb, sums2), ("first, given again afterwards", again, sums)):
        for i, (g, su) in enumerate(zip(got_i, ss)):
          if not near(g, c * su, tol + Fraction(TOL)) or (exact and g != c * su):
            raise Violation("maverage.%s(%d) used on two signals read alternately and then again: %s signal, output %d = %r, "
                            "expected %r (x=%r, other=%r, zero=%r)" % (name, size, lbl, i, g, c * su, x, x2, zero))
  if exact:
    ref = outs["deque"]
    for name in outs:
      if outs[name] != ref:
        raise Violation("maverage.%s != maverage.deque: %r vs %r (size=%d zero=%r x=%r)"
                        % (name, outs[name], ref, size, zero, x))
  labels = ["maverage", "zero=0" if zero == 0 else "zero!=0",
            "size pow2" if (size & (size - 1)) == 0 else "size not pow2",
            "exact" if exact else "tolerance", "route:" + route]
  if n > size:
    labels.append("window slid")
  if not x:
    labels.append("empty input")
  return {"nontrivial": n > size and any(v != x[0] for v in x), "labels": labels}


# --------------------------------------------------------------------------
# accumulate
# --------------------------------------------------------------------------
# samples that do not absorb a float (a float creeping into the sum would show): plain Fractions, and ints
# around and beyond 2**53 mixed with small ones
_big = st.one_of(
  st.integers(-9, 9),
  st.tuples(st.sampled_from([1, -1]), st.integers(52, 70), st.integers(-3, 3)).map(lambda t: t[0] * 2 ** t[1] + t[2]))


def strat_accumulate(tier):
  n = 16 if tier == "quick" else 40
  return st.fixed_dictionaries(dict(
    x=st.one_of(xs(tier), xs(tier), st.lists(st.integers(-9, 9), max_size=12),
                st.lists(st.fractions(min_value=-4, max_value=4, max_denominator=97), min_size=1, max_size=n),
                st.lists(_big, min_size=2, max_size=n)),
    zkw=st.sampled_from(["default", "int0", "q0"]), route=_route))


ACC = [("accumulate", lambda s, kw: lazy_itertools.accumulate.accumulate(s)),
       ("itertools", lambda s, kw: lazy_itertools.accumulate["itertools"](s)),
       ("default", lambda s, kw: lazy_itertools.accumulate(s)),
       ("func", lambda s, kw: lazy_itertools.accumulate.func(s)),
       ("pure_python", lambda s, kw: lazy_itertools.accumulate["pure_python"](s)),
       ("z", lambda s, kw: lazy_itertools.accumulate.z(s, **kw))]


def run_accumulate(case):
  x, route = case["x"], case["route"]
  kw, _ = zero_of(case["zkw"])
  n = len(x)
  exp = []
  tot = Fraction(0)
  for v in x:
    tot += v
    exp.append(tot)
  tol = Fraction(TOL) * sum((abs(v) for v in x), Fraction(0))
  if x and all(type(v) is int for v in x):
    # "int samples": every sample and running sum is a double, so even float arithmetic is exact on them
    kind = "big int samples" if any(abs(v) >= 2 ** 52 for v in x + exp) else "int samples"
  elif x and not any(isinstance(v, Q) for v in x):
    kind = "plain Fraction samples"
  else:
    kind = "Q samples"
  for name, call in ACC:
    try:
      got = pulled(call(feed(x, route), kw), n, "accumulate." + name)
    except Violation:
      raise
    except Exception as e:
      raise Violation("accumulate.%s(%r) raised %s: %s instead of giving the running sums %r"
                      % (name, x, type(e).__name__, e, exp),
                      site="accumulate.%s:%s" % (name, "empty" if not x else "raise"))
    # the z strategy with its default float memory (zero=0.) adds in double precision when the samples do not
    # absorb a float: compared within 1e-12 * sum|x| then; everything else is exact
    floaty = name == "z" and case["zkw"] == "default" and kind in ("plain Fraction samples", "big int samples")
    if len(got) != n or any(not near(g, e, tol) if floaty else g != e for g, e in zip(got, exp)):
      raise Violation("accumulate.%s(%r) = %r, running sums are %r" % (name, x, got, exp))
  labels = ["accumulate", "route:" + route, kind]
  if not x:
    labels.append("empty input")
  return {"nontrivial": n >= 3 and any(v != 0 for v in x[1:]), "labels": labels}


# --------------------------------------------------------------------------
# amdf
# --------------------------------------------------------------------------
def strat_amdf(tier):
  return st.fixed_dictionaries(dict(
    x=xs(tier), lag=st.integers(1, 5), size=st.integers(1, 6), zero=_zero,
    route=_route))


def run_amdf(case):
  x, lag, size, route = case["x"], case["lag"], case["size"], case["route"]
  kw, zero = zero_of(case["zero"])
  n = len(x)
  c = Fraction(1. / size)
  d = [abs(x[i] - (x[i - lag] if i >= lag else zero)) for i in range(n)]
  sums = [window_sum(d, i, size, zero) for i in range(n)]
  got = pulled(amdf(lag, size)(feed(x, route), **kw), n, "amdf")
  if len(got) != n:
    raise Violation("amdf(%d,%d): %d outputs for %d inputs" % (lag, size, len(got), n))
  exact = zero == 0 or (size & (size - 1)) == 0
  tol = Fraction(TOL) * (2 * sum((abs(v) for v in x), Fraction(0)) + 2 * abs(zero))
  for i, (g, s) in enumerate(zip(got, sums)):
    if (exact and g != c * s) or not near(g, c * s, tol) or not near(g, s / size, tol):
      raise Violation("amdf(lag=%d,size=%d)(x, zero=%r)[%d] = %r, moving average of |x[n]-x[n-lag]| "
                      "is %r (fl(1/size)*sum = %r; x=%r)" % (lag, size, zero, i, g, s / size, c * s, x))
  labels = ["amdf", "zero=0" if zero == 0 else "zero!=0", "route:" + route,
            "lag<size" if lag < size else ("lag=size" if lag == size else "lag>size")]
  # one amdf(lag, size) object applied to two signals that are alive together and read alternately, then once
  # more to the first signal: each output stream is the amdf of its own signal
  if n >= 2:
    x2 = [v + 1 for v in reversed(x)]
    d2 = [abs(x2[i] - (x2[i - lag] if i >= lag else zero)) for i in range(n)]
    sums2 = [window_sum(d2, i, size, zero) for i in range(n)]
    f = amdf(lag, size)
    sa, sb = iter(f(feed(x, route), **kw)), iter(f(feed(x2, route), **kw))
    ga, gb = [], []
    for i in range(n):
      ga.append(next(sa))
      gb.append(next(sb))
    again = pulled(f(feed(x, route), **kw), n, "amdf (third use)")
    for lbl, got_i, ss in (("first", ga, sums), ("second", gb, sums2), ("first, given again afterwards", again, sums)):
      if len(got_i) != n:
        raise Violation("amdf(%d,%d) object used again: %d outputs for %d inputs" % (lag, size, len(got_i), n))
      for i, (g, su) in enumerate(zip(got_i, ss)):
        if (exact and g != c * su) or not near(g, c * su, tol + Fraction(TOL)):
          raise Violation("one amdf(lag=%d,size=%d) object used on two signals read alternately and then again: "
                          "%s signal, output %d = %r, expected %r (x=%r, other=%r, zero=%r)"
                          % (lag, size, lbl, i, g, c * su, x, x2, zero))
    labels.append("one object, several signals")
  nt = n > max(lag, size) and len(set(d)) > 1
  return {"nontrivial": nt, "labels": labels}


# --------------------------------------------------------------------------
# envelope
# --------------------------------------------------------------------------
_cut = st.one_of(
  st.floats(min_value=1e-3, max_value=3.14, allow_nan=False),
  st.sampled_from([math.pi / 512, math.pi / 2, 1., .5, 3., math.pi / 6, 0.01]),
  st.sampled_from([0, 0.0, math.pi, 1, 3]))     # the ends of the documented range and int cut-offs


def strat_envelope(tier):
  return st.fixed_dictionaries(dict(
    x=xs(tier), cutoff=st.one_of(st.none(), _cut),
    strategy=st.sampled_from(["abs", "squared", "rms", "abs", "squared", "default"]), route=_route))


def run_envelope(case):
  x, cutoff, name, route = case["x"], case["cutoff"], case["strategy"], case["route"]
  n = len(x)
  kw = {} if cutoff is None else {"cutoff": cutoff}
  positional = cutoff is not None and len(x) % 2 == 1
  cut = math.pi / 512 if cutoff is None else cutoff
  xx = 2 - math.cos(cut)
  R = xx - math.sqrt(xx ** 2 - 1)
  g = 1 - R
  if not 0 < R <= 1:
    raise Violation("oracle: pole radius %r outside (0,1) for cutoff %r" % (R, cut))
  fn = envelope if name == "default" else getattr(envelope, name)
  kind = "rms" if name == "default" else name
  got = pulled(fn(feed(x, route), cutoff) if positional else fn(feed(x, route), **kw), n, "envelope." + name)
  if len(got) != n:
    raise Violation("envelope.%s: %d outputs for %d inputs" % (name, len(got), n))
  y = Fraction(0)
  for i, v in enumerate(x):
    u = abs(v) if kind == "abs" else v * v
    y = Fraction(g) * u + Fraction(R) * y
    if kind == "rms":
      e = math.sqrt(y)
      ok = isinstance(got[i], float) and abs(got[i] - e) <= TOL * max(1., e)
    else:
      e = y
      ok = got[i] == e
    if not ok:
      raise Violation("envelope.%s(x, cutoff=%r)[%d] = %r, one-pole low-pass (R=%r) of %s gives %r (x=%r)"
                      % (name, cut, i, got[i], R, "|x|" if kind == "abs" else "x^2", e, x))
  labels = ["envelope." + kind, "route:" + route,
            "default cutoff" if cutoff is None else "cutoff given"]
  nt = n >= 4 and any(v < 0 for v in x) and any(v > 0 for v in x)
  return {"nontrivial": nt, "labels": labels}


# --------------------------------------------------------------------------
# clip
# --------------------------------------------------------------------------
_lim = st.one_of(st.none(), qv(-3, 3), qv(-3, 3), st.just("default"))

# number types of the samples / of the limits.  Q absorbs a float operand exactly; int and plain Fraction
# do not (Fraction - float is a float), and a float limit is what the documented defaults are.
_S_T = ["Q", "Q", "Fraction", "Fraction", "int"]
_L_T = ["Q", "Q", "Fraction", "int", "float", "float"]

# a sample placed on a limit or a hair (1e-17 .. 2**-70: far below double resolution) beside it
_hair1 = st.tuples(st.sampled_from([1, -1]), st.sampled_from([2, 10]), st.integers(17, 70)).map(
  lambda t: Fraction(t[0], t[1] ** t[2]))
_hair = weighted((1, st.just(Fraction(0))), (3, _hair1))


def cast_lim(v, t):
  """exact value v as a limit of number type t; 'float' only when v is a double, 'int' only when integral"""
  if v is None or isinstance(v, str):
    return v
  f = Fraction(v)
  if t == "float":
    return float(f) if Fraction(float(f)) == f else f
  return cast(f, t)


# what may happen, in place, to the Stream an earlier clip call returned before it is clipped again
_gain = st.sampled_from([-3, -2, -1, 2, 3, Q(1, 2), Q(5, 4)])


def _inplace(el):
  more = st.lists(el, min_size=1, max_size=5)
  return st.one_of(
    st.tuples(st.just("map"), _gain, qv(-2, 2)), st.tuples(st.just("map"), _gain, qv(-2, 2)),
    st.tuples(st.just("append"), more), st.tuples(st.just("append"), more.map(list)),
    st.tuples(st.just("abs")),
    st.tuples(st.just("skip"), st.integers(1, 3)),
    st.tuples(st.just("limit"), st.integers(0, 12)))


@st.composite
def _clip_case(draw, tier):
  s_t, l_t = draw(st.sampled_from(_S_T)), draw(st.sampled_from(_L_T))
  low, high = draw(_lim), draw(_lim)
  if l_t == "float":     # limits that are doubles: halves, eighths, sixteenths
    low = low if low is None or isinstance(low, str) else Q(round(Fraction(low) * 16), 16)
    high = high if high is None or isinstance(high, str) else Q(round(Fraction(high) * 16), 16)
  if not (low is None or high is None or isinstance(low, str) or isinstance(high, str)) and high < low \
     and draw(st.sampled_from([True, True, False])):
    low, high = high, low      # keep the refused combination (high < low) at a modest share
  low, high = cast_lim(low, l_t), cast_lim(high, l_t)
  lo = Fraction(-1) if isinstance(low, str) else (None if low is None else Fraction(low))
  hi = Fraction(1) if isinstance(high, str) else (None if high is None else Fraction(high))
  near_lim = st.tuples(st.sampled_from([v for v in (lo, hi) if v is not None] or [Fraction(0)]), _hair).map(sum)
  el = weighted((2, qv()), (1, near_lim)) if s_t == "Q" else weighted((1, qv()), (2, near_lim))
  # the length is drawn first (st.lists alone, this deep inside a composite, gives an empty list a third of the time)
  size = draw(st.sampled_from([0] + list(range(1, 17 if tier == "quick" else 41)) + [2, 3, 4, 5, 6, 8]))
  x = [cast(v, s_t) for v in draw(st.lists(el, min_size=size, max_size=size))]
  pre = None
  if draw(st.sampled_from([True, False])):
    pre = dict(limits=draw(st.sampled_from(["same", "same", "other"])),
               low=draw(qv(-3, 3)), high=draw(qv(-3, 3)),
               ops=draw(st.lists(_inplace(el.map(lambda v: cast(v, s_t))), min_size=draw(st.sampled_from([0, 1, 1, 1])), max_size=3)))
  return dict(x=x, low=low, high=high, route=draw(_route), positional=draw(st.booleans()), pre=pre)


def strat_clip(tier):
  return _clip_case(tier)


def clip_ref(v, lo, hi):
  if lo is not None and v < lo:
    return lo
  if hi is not None and v > hi:
    return hi
  return v


def run_clip(case):
  x, route = case["x"], case["route"]
  low, high = case["low"], case["high"]
  kw = {}
  if low != "default":
    kw["low"] = low
  if high != "default":
    kw["high"] = high
  lo = -1. if low == "default" else low
  hi = 1. if high == "default" else high

  def call(data):
    if case["positional"] and low != "default" and high != "default":
      return clip(data, low, high)
    return clip(data, **kw)

  bad = lo is not None and hi is not None and hi < lo
  labels = ["clip", "route:" + route]
  # ---- the input: fresh data, or the very Stream an earlier clip call returned (same limits or others),
  # possibly changed in place since (Stream.map / append / abs / skip / limit return the same object)
  pre = None if bad else case.get("pre")
  if pre:
    if pre["limits"] == "same":
      s0, lo0, hi0 = call(feed(x, route)), lo, hi
    else:
      lo0, hi0 = sorted([pre["low"], pre["high"]])
      s0 = clip(feed(x, route), lo0, hi0)
    y = [clip_ref(v, lo0, hi0) for v in x]
    changed = False
    for op in pre["ops"]:
      before = list(y)
      if op[0] == "map":
        k, off = op[1], op[2]
        r = s0.map(lambda v, k=k, off=off: k * v + off)
        y = [k * v + off for v in y]
      elif op[0] == "append":
        r = s0.append(list(op[1]))
        y = y + list(op[1])
      elif op[0] == "abs":
        r = abs(s0)
        y = [abs(v) for v in y]
      elif op[0] == "skip":
        r = s0.skip(op[1])
        y = y[op[1]:]
      else:
        r = s0.limit(op[1])
        y = y[:op[1]]
      if r is not s0:
        raise Violation("oracle: Stream.%s is documented to work in place but returned another object" % op[0])
      changed = changed or y != before
    data, x = s0, y
    labels += ["input: clip output", "earlier limits " + pre["limits"],
               "changed in place since" if changed else "not changed since"]
  else:
    data = None
    labels.append("input: fresh")
  try:
    s = call(feed(x, route) if data is None else data)
  except ValueError:
    if bad:
      return {"nontrivial": False, "labels": ["clip", "high<low ValueError"]}
    raise
  if bad:
    raise Violation("clip(x, low=%r, high=%r) did not raise ValueError" % (lo, hi))
  n = len(x)
  once = pulled(s, n, "clip")
  if len(once) != n:
    raise Violation("clip: %d outputs for %d inputs (input %s)" % (len(once), n, labels[2:]))
  twice = pulled(call(list(once)), n, "clip")
  if twice != once:
    raise Violation("clip is not idempotent: clip(x)=%r clip(clip(x))=%r (x=%r low=%r high=%r; input %s: "
                    "x is what that Stream held)" % (once, twice, x, lo, hi, labels[2:]))
  # the same without a list in between: the Stream clip returned is handed to clip again
  nested = pulled(call(call(feed(x, route))), n, "clip(clip(x))")
  if nested != once:
    raise Violation("clip is not idempotent: clip(x)=%r but clip(clip(x)) on the Stream itself = %r "
                    "(x=%r low=%r high=%r)" % (once, nested, x, lo, hi))
  active = False
  for i, (v, o) in enumerate(zip(x, once)):
    if (lo is not None and o < lo) or (hi is not None and o > hi):
      raise Violation("clip(x, low=%r, high=%r)[%d] = %r lies outside the limits (x[%d]=%r; input %s)"
                      % (lo, hi, i, o, i, v, labels[2:]))
    inside = (lo is None or v >= lo) and (hi is None or v <= hi)
    if inside and o != v:
      raise Violation("clip(x, low=%r, high=%r)[%d] changed %r (already inside) to %r (input %s)"
                      % (lo, hi, i, v, o, labels[2:]))
    active = active or not inside
  lim = ("none" if lo is None else "low") + "/" + ("none" if hi is None else "high")
  labels.append("limits:" + lim)
  if active:
    labels.append("clip active")
  if x:
    labels.append("samples:all Q" if all(isinstance(v, Q) for v in x) else "samples:int / plain Fraction among them")
  labels += ["a limit of type " + _numtype(b) for b in (lo, hi) if b is not None]
  for v in x:
    for side, b in ((-1, lo), (1, hi)):
      if b is None:
        continue
      d = (Fraction(v) - Fraction(b)) * side        # > 0: beyond this limit
      if d == 0:
        labels.append("sample on a limit")
      elif abs(d) * 10 ** 15 < max(abs(Fraction(b)), 1):
        labels.append("sample a hair off a limit")
        if d > 0 and not isinstance(v, Q):
          labels.append("sample a hair beyond a limit, no Q")
  return {"nontrivial": active and n >= 2, "labels": sorted(set(labels))}


# --------------------------------------------------------------------------
# zcross
# --------------------------------------------------------------------------
def zcross_ref(x, h, first_sign):
  """State machine straight from the statement."""
  sign = 0 if first_sign == 0 else (-1 if first_sign < 0 else 1)
  out = []
  for v in x:
    if sign == 0:                      # no sign yet: first sample outside the band defines it
      out.append(0)
      if v > h or v < -h:
        sign = 1 if v > 0 else -1
    elif (sign > 0 and v < -h) or (sign < 0 and v > h):   # beyond threshold, opposite side
      out.append(1)
      sign = -sign
    else:
      out.append(0)
  return out


_fs = st.sampled_from([-3, 0, 2, 1, -1, Q(-1, 2), Q(1, 3), -0.5, 2.5, Q(0), 0.])
_hpos = st.fractions(min_value=Fraction(1, 4), max_value=2, max_denominator=4).map(Q)
_hyst = st.sampled_from(["pos", "pos", "pos", "default", "zero"]).flatmap(
  lambda k: _hpos if k == "pos" else
  (st.just("default") if k == "default" else st.sampled_from([0, Q(0)])))      # cast to the drawn type later


_H_T = ["Q", "Fraction", "int", "float", "float", "float"]


@st.composite
def _zcross_case(draw, tier):
  """samples of type Q / plain Fraction / int, a hysteresis of type Q / Fraction / int / float (int and plain
  Fraction do not absorb a float operand), samples on the thresholds and a hair (1e-17 .. 2**-70) beside them"""
  s_t, h_t = draw(st.sampled_from(_S_T)), draw(st.sampled_from(_H_T))
  hyst = draw(_hyst)
  if not isinstance(hyst, str):
    hyst = cast_lim(hyst, h_t)        # quarters: every value is a double; 'int' stays int only when integral
  h = Fraction(0) if isinstance(hyst, str) else Fraction(hyst)
  near = st.tuples(st.sampled_from([h, -h]), _hair).map(sum)
  el = weighted((3, qv(-3, 3, 4)), (1, near)) if s_t == "Q" else weighted((1, qv(-3, 3, 4)), (1, near))
  size = draw(st.sampled_from([0] + list(range(1, 17 if tier == "quick" else 41)) + [2, 3, 4, 5, 6, 8]))
  x = [cast(v, s_t) for v in draw(st.lists(el, min_size=size, max_size=size))]
  fs = draw(_fs) if draw(st.sampled_from([True, True, False])) else "default"
  return dict(x=x, hyst=hyst, first_sign=fs, route=draw(_route))


def strat_zcross(tier):
  return _zcross_case(tier)


def run_zcross(case):
  x, route = case["x"], case["route"]
  kw = {}
  h, fs = 0, 0
  if case["hyst"] != "default":
    kw["hysteresis"] = h = case["hyst"]
  if case["first_sign"] != "default":
    kw["first_sign"] = fs = case["first_sign"]
  x = [(Q(h) if v == "+h" else -Q(h)) if isinstance(v, str) else v for v in x]   # samples placed on the thresholds
  n = len(x)
  got = pulled(zcross(feed(x, route), **kw), n, "zcross")
  exp = zcross_ref(x, h, fs)
  if got != exp:
    raise Violation("zcross(%r, %r) = %r, expected %r" % (x, kw, got, exp))
  ncross = sum(exp)
  labels = ["zcross", "first_sign=0" if fs == 0 else "first_sign given",
            "hysteresis>0" if h > 0 else "hysteresis=0", "route:" + route]
  if ncross:
    labels.append("crossing")
  if h > 0 and any(-h <= v <= h and v != 0 for v in x):
    labels.append("sample inside band")
  if h > 0 and any(abs(v) == h for v in x):
    labels.append("sample on threshold")
  if x and not all(isinstance(v, Q) for v in x):
    labels.append("samples:int / plain Fraction among them")
  labels.append("hysteresis of type " + _numtype(h))
  hf = Fraction(h)
  for v in x:
    d = abs(Fraction(v)) - hf           # > 0: outside the band
    if d != 0 and abs(d) * 10 ** 15 < max(hf, 1):
      labels.append("sample a hair off a threshold")
      if d > 0 and not isinstance(v, Q):
        labels.append("sample a hair beyond a threshold, no Q")
        if isinstance(h, float) and h:
          labels.append("sample a hair beyond a float threshold, no Q")
  labels = sorted(set(labels))
  return {"nontrivial": n >= 3 and ncross >= 1, "labels": labels}


# --------------------------------------------------------------------------
# unwrap
# --------------------------------------------------------------------------
def strat_unwrap(tier):
  stepq = st.fractions(min_value=Fraction(1, 4), max_value=4, max_denominator=4).map(Q)
  return st.fixed_dictionaries(dict(
    x=xs(tier, min_size=1, lo=-8, hi=8, den=4),
    max_delta=st.one_of(st.fractions(min_value=0, max_value=3, max_denominator=4).map(Q),
                        st.integers(0, 3)),
    step=st.one_of(stepq, stepq, st.integers(1, 4)),
    # how the two parameters are passed: both by keyword, both by position, or one of them left
    # at its documented default (max_delta = pi, step = 2 pi)
    args=st.sampled_from(["kw", "kw", "pos", "step only", "max_delta only", "defaults"]),
    route=_route))


def run_unwrap(case):
  import math as _m
  x, md, step, route = case["x"], case["max_delta"], case["step"], case["route"]
  n = len(x)
  how = case.get("args", "kw")
  if how == "pos":
    out = unwrap(feed(x, route), md, step)
  elif how == "step only":
    out, md = unwrap(feed(x, route), step=step), _m.pi
  elif how == "max_delta only":
    out, step = unwrap(feed(x, route), max_delta=md), 2 * _m.pi
  elif how == "defaults":
    out, md, step = unwrap(feed(x, route)), _m.pi, 2 * _m.pi
  else:
    out = unwrap(feed(x, route), max_delta=md, step=step)
  if how in ("max_delta only", "defaults"):
    # with the irrational default step only the "untouched without jumps" claim is exact
    got = pulled(out, n, "unwrap")
    if len(got) != n:
      raise Violation("unwrap: %d outputs for %d inputs (x=%r)" % (len(got), n, x))
    if not any(abs(b - a) > md for a, b in zip(x, x[1:])) and got != x:
      raise Violation("unwrap(x, %s) changed a sequence without jumps above max_delta=%r: %r -> %r" % (how, md, x, got))
    return {"nontrivial": False, "labels": ["unwrap", "args:" + how]}
  got = pulled(out, n, "unwrap")
  if len(got) != n:
    raise Violation("unwrap: %d outputs for %d inputs (x=%r)" % (len(got), n, x))
  stp = Fraction(step)
  for i, (g, v) in enumerate(zip(got, x)):
    if ((Fraction(g) - v) / stp).denominator != 1:
      raise Violation("unwrap(x, max_delta=%r, step=%r)[%d] = %r differs from x[%d] = %r by %r, "
                      "not a multiple of step (x=%r)" % (md, step, i, g, i, v, g - v, x))
  jumps = [abs(b - a) > md for a, b in zip(x, x[1:])]
  if not any(jumps) and got != x:
    raise Violation("unwrap(x, max_delta=%r, step=%r) changed a sequence without jumps: %r -> %r"
                    % (md, step, x, got))
  bound = max(Fraction(md), stp / 2)
  for i in range(1, n):
    if abs(Fraction(got[i]) - got[i - 1]) > bound:
      raise Violation("unwrap(x, max_delta=%r, step=%r): |out[%d]-out[%d]| = %r > max(max_delta, step/2) = %r "
                      "(x=%r out=%r)" % (md, step, i, i - 1, abs(got[i] - got[i - 1]), bound, x, got))
  corrected = got != x
  labels = ["unwrap", "args:" + how, "route:" + route, "jump" if any(jumps) else "no jump",
            "diff on max_delta" if any(abs(b - a) == md for a, b in zip(x, x[1:])) else "no diff on max_delta",
            "max_delta<step/2" if Fraction(md) < stp / 2 else "max_delta>=step/2"]
  if corrected:
    labels.append("corrected")
  if sum(jumps) >= 2:
    labels.append("several jumps")
  labels.append("samples:" + "/".join(sorted(set(_numtype(v) for v in x))))
  labels.append("params:" + "/".join(sorted(set(_numtype(v) for v in (md, step)))))
  # regimes where a quotient taken in double precision is not the exact one
  half = Fraction(1, 2)
  for a, b, j in zip(x, x[1:], jumps):
    q = abs(Fraction(b) - a) / stp
    off = q - (q.numerator // q.denominator) - half      # distance from a half-step tie
    if j and abs(Fraction(b) - a) > 2 ** 53:
      labels.append("jump beyond 2**53")
    if j and off == 0:
      labels.append("jump on half-step tie")
    elif j and abs(off) * 10 ** 15 < max(q, 1):
      labels.append("jump a hair off half-step tie")
  labels = sorted(set(labels))
  return {"nontrivial": n >= 3 and corrected, "labels": labels}


def _numtype(v):
  return "Q" if isinstance(v, Q) else ("Fraction" if isinstance(v, Fraction) else type(v).__name__)


def cast(v, t):
  """exact value v as the number type t ('int' falls back to Fraction for a non-integer)"""
  v = Fraction(v)
  if t == "Q":
    return Q(v)
  if t == "int" and v.denominator == 1:
    return int(v)
  return v


_NUM = ["int", "int", "Fraction", "Fraction", "Q"]


@st.composite
def _unwrap_wide(draw, tier):
  """Sequences built move by move from number types that do not absorb floats (int, plain Fraction)
  as well as Q: ordinary small moves, moves beyond 2**53, moves on / a hair off a half-step tie,
  and returns to small absolute values."""
  s_t, p_t = draw(st.sampled_from(_NUM)), draw(st.sampled_from(_NUM))
  integral = s_t == "int"
  ints = st.integers(1, 12).map(Fraction)
  step = draw(ints if integral else st.one_of(
    st.fractions(min_value=Fraction(1, 4), max_value=4, max_denominator=4), ints))
  rel = draw(st.sampled_from([None, None, 0, Fraction(1, 8), Fraction(1, 4), Fraction(1, 3), Fraction(1, 2),
                              Fraction(3, 4), 1]))
  md = draw(st.fractions(min_value=0, max_value=3, max_denominator=4)) if rel is None else step * rel
  small = st.integers(-8, 8).map(Fraction) if integral else st.fractions(min_value=-8, max_value=8, max_denominator=4)
  sign = st.sampled_from([1, -1])
  hair = st.sampled_from([-1, 0, 1]).map(Fraction) if integral else st.one_of(
    st.just(Fraction(0)),
    st.tuples(sign, st.sampled_from([2, 10]), st.integers(17, 70)).map(lambda t: Fraction(t[0], t[1] ** t[2])))
  move = st.one_of(
    st.tuples(st.just("small"), small),
    st.tuples(st.just("big"), sign, st.integers(54, 100), st.integers(1, 9), small),
    st.tuples(st.just("tie"), sign, st.integers(0, 6), hair),
    st.tuples(st.just("abs"), small))
  moves = draw(st.lists(move, min_size=2, max_size=10 if tier == "quick" else 24))
  cur = draw(small)
  x = [cur]
  for m in moves:
    if m[0] == "small":
      cur = cur + m[1]
    elif m[0] == "big":
      cur = cur + m[1] * m[3] * 2 ** m[2] + m[4]
    elif m[0] == "tie":
      d = (m[2] + Fraction(1, 2)) * step
      if integral:
        d = Fraction(d.numerator // d.denominator)
      cur = cur + m[1] * (d + m[3])
    else:
      cur = m[1]
    x.append(cur)
  return dict(x=[cast(v, s_t) for v in x], max_delta=cast(md, p_t), step=cast(step, p_t),
              args=draw(st.sampled_from(["kw", "pos"])), route=draw(_route))


def strat_unwrap_wide(tier):
  return _unwrap_wide(tier)


# --------------------------------------------------------------------------
# long inputs: thousands of samples (many window lengths), described compactly
# --------------------------------------------------------------------------
def long_signal(seed, n, palette):
  """n samples taken from the palette in a fixed pseudo-random order: a pure function of the case"""
  out, s, k = [], seed, len(palette)
  for _ in range(n):
    s = (s * 1103515245 + 12345) % 2 ** 31
    out.append(palette[(s >> 8) % k])
  return out


def sliding_sums(x, size, zero):
  """window_sum for every n in O(len(x)); exact arithmetic, so the same numbers as the direct sums"""
  out, acc = [], zero * size
  for i, v in enumerate(x):
    acc = acc + v - (x[i - size] if i >= size else zero)
    out.append(acc)
  return out


def strat_long(tier):
  quick = tier == "quick"
  base = dict(
    kind=st.sampled_from(["int", "int", "Q"]), seed=st.integers(0, 2 ** 31 - 1),
    # spread evenly over the range (integers() alone leans towards the lower end)
    n=st.tuples(st.sampled_from(range(1000, 4000 if quick else 12000, 100)), st.integers(0, 100)).map(sum),
    palette=st.lists(qv(-4, 4, 5), min_size=2, max_size=6),
    ipalette=st.lists(st.integers(-50, 50), min_size=2, max_size=6), route=_route)
  size = st.one_of(st.integers(1, 8), st.sampled_from([16, 32, 64]), st.integers(9, 80 if quick else 200))
  win = dict(size=size, log2size=st.integers(0, 6 if quick else 8), zero=_zero,
             izero=st.sampled_from(["default", "int0", "default", "int0", 1, -2, 3]))

  stepq = st.fractions(min_value=Fraction(1, 4), max_value=4, max_denominator=4).map(Q)
  extra = {
    "maverage": win,
    "amdf": dict(win, lag=st.integers(1, 40)),
    "accumulate": dict(zkw=st.sampled_from(["default", "int0", "q0"])),
    "zcross": dict(hyst=_hyst, first_sign=st.sampled_from(["default", 0, -3, 2, Q(1, 3)])),
    "unwrap": dict(max_delta=st.fractions(min_value=0, max_value=3, max_denominator=4).map(Q),
                   step=st.one_of(stepq, st.integers(1, 4)), args=st.sampled_from(["kw", "pos"])),
    "clip": dict(low=_lim, high=_lim, positional=st.booleans()),
    "envelope": dict(cutoff=st.one_of(st.none(), _cut),
                     strategy=st.sampled_from(["abs", "squared", "rms", "abs", "squared", "default"]))}
  # the tool is drawn first (a one_of over dictionaries of different sizes is not evenly weighted)
  return st.sampled_from(["maverage"] * 4 + ["amdf"] * 3 + ["envelope"] * 2 + ["accumulate", "zcross", "unwrap", "clip"]).flatmap(
    lambda tool: st.fixed_dictionaries(dict(base, tool=st.just(tool), **extra[tool])))


def long_envelope(case, labels):
  """envelope over thousands of int samples: the library then works in double precision, and so does the oracle
  (the documented one-pole recursion); compared within 1e-9 * max(1, peak of the rectified input); rms by its square"""
  n, route, name, cutoff = case["n"], case["route"], case["strategy"], case["cutoff"]
  x = long_signal(case["seed"], n, case["ipalette"])
  labels = [lb for lb in labels if not lb.startswith("kind:")] + ["kind:int", "envelope (float oracle)"]
  cut = math.pi / 512 if cutoff is None else cutoff
  xx = 2 - math.cos(cut)
  R = xx - math.sqrt(xx ** 2 - 1)
  g = 1 - R
  fn = envelope if name == "default" else getattr(envelope, name)
  kind = "rms" if name == "default" else name
  positional = cutoff is not None and case["seed"] % 2 == 1
  got = pulled(fn(feed(x, route), cutoff) if positional else
               fn(feed(x, route), **({} if cutoff is None else {"cutoff": cutoff})), n, "envelope." + name)
  what = "x = long_signal(%d, %d, %r)" % (case["seed"], n, case["ipalette"])
  if len(got) != n:
    raise Violation("envelope.%s: %d outputs for %d inputs (%s)" % (name, len(got), n, what))
  peak = max(abs(v) for v in x)
  peak = float(peak if kind == "abs" else peak * peak)
  tol = 1e-9 * max(1., peak)
  y = 0.
  for i, v in enumerate(x):
    y = g * float(abs(v) if kind == "abs" else v * v) + R * y
    o = got[i] * got[i] if kind == "rms" else got[i]
    if not abs(o - y) <= tol:
      raise Violation("envelope.%s(x, cutoff=%r)[%d] = %r, one-pole low-pass (R=%r) of %s gives %r (%s)"
                      % (name, cut, i, got[i], R, "|x|" if kind == "abs" else "x^2",
                         math.sqrt(y) if kind == "rms" else y, what))
  labels.append("envelope." + kind)
  return {"nontrivial": any(v != x[0] for v in x) and 0 < R < 1, "labels": labels}


def run_long(case):
  tool, kind, n, route = case["tool"], case["kind"], case["n"], case["route"]
  x = long_signal(case["seed"], n, case["ipalette"] if kind == "int" else case["palette"])
  labels = ["long", "tool:" + tool, "kind:" + kind, "route:" + route,
            "n>=1280" if n >= 1280 else "n<1280", "n>=2560" if n >= 2560 else "n<2560"]
  varied = any(v != x[0] for v in x)
  if tool in ("accumulate", "zcross", "unwrap", "clip"):
    sub = dict((k, v) for k, v in case.items() if k not in ("tool", "kind", "seed", "n", "palette", "ipalette"))
    sub["x"] = x
    res = {"accumulate": run_accumulate, "zcross": run_zcross, "unwrap": run_unwrap, "clip": run_clip}[tool](sub)
    return {"nontrivial": res["nontrivial"], "labels": labels}
  if tool == "envelope":
    return long_envelope(case, labels)
  # ---- maverage (every strategy) / amdf
  if kind == "int":      # ints with a power-of-two window: the library's float arithmetic is exact
    size = 2 ** case["log2size"]
    kw, zero = zero_of(case["izero"])
    zero = int(zero) if case["izero"] in ("default", "int0") else zero
    xe = x
  else:
    size = case["size"]
    kw, zero = zero_of(case["zero"])
    xe, zero = [Fraction(v) for v in x], Fraction(zero)
  c = Fraction(1. / size)
  exact = zero == 0 or (size & (size - 1)) == 0
  peak = max(abs(v) for v in xe)
  tol = Fraction(TOL) * (2 * size * peak + 2 * abs(zero))
  labels += ["zero=0" if zero == 0 else "zero!=0", "exact" if exact else "tolerance",
             "size<=32" if size <= 32 else "size>32", "n>=40*size" if n >= 40 * size else "n<40*size"]
  what = "x = long_signal(%d, %d, %r)" % (case["seed"], n, case["ipalette"] if kind == "int" else case["palette"])

  def compare(name, got, sums):
    if len(got) != n:
      raise Violation("%s: %d outputs for %d inputs (%s)" % (name, len(got), n, what))
    for i, (g, su) in enumerate(zip(got, sums)):
      e = c * su
      if g != e and (exact or not near(g, e, tol) or not near(g, su / size, tol)):
        raise Violation("%s(x, zero=%r)[%d] = %r, mean of the last %d samples is %r (fl(1/size)*sum = %r; "
                        "window = %r; %s)" % (name, zero, i, g, size, su / size, e,
                                              xe[max(0, i - size + 1):i + 1], what))

  if tool == "maverage":
    sums = sliding_sums(xe, size, zero)
    for name, mk in MAV:
      if name == "fir" and kind == "Q" and size * n > 40000:
        labels.append("fir left out (cost)")      # size multiplications of Q per sample
        continue
      compare("maverage.%s(%d)" % (name, size), pulled(mk(size)(feed(x, route), **kw), n, "maverage." + name), sums)
  else:
    lag = case["lag"]
    d = [abs(xe[i] - (xe[i - lag] if i >= lag else zero)) for i in range(n)]
    sums = sliding_sums(d, size, zero)
    labels.append("lag<size" if lag < size else ("lag=size" if lag == size else "lag>size"))
    compare("amdf(%d,%d)" % (lag, size), pulled(amdf(lag, size)(feed(x, route), **kw), n, "amdf"), sums)
    varied = len(set(d)) > 1
  return {"nontrivial": varied, "labels": labels}


CLAUSES = [
  Clause("maverage", strat_maverage, run_maverage, quick=1200, thorough=24000,
         floors={"window slid": .15, "zero!=0": .1, "tolerance": .05, "exact": .2},
         doc="maverage.deque/recursive/fir/default == fl(1/size)*sum(last size samples, earlier = zero) "
             "(exact when zero=0 or size=2^k) and == true mean within 1e-12"),
  Clause("accumulate", strat_accumulate, run_accumulate, quick=800, thorough=16000,
         floors={"empty input": .02, "Q samples": .2, "int samples": .04, "plain Fraction samples": .05,
                 "big int samples": .05},
         doc="accumulate.itertools/func/z == running sums; empty in -> empty out; Q, small int, plain Fraction and "
             "int samples beyond 2**53 (exact, except z with its default float memory on the last two: 1e-12)"),
  Clause("amdf", strat_amdf, run_amdf, quick=800, thorough=16000,
         floors={"lag<size": .1, "lag>size": .1, "zero!=0": .1, "one object, several signals": .3},
         doc="amdf(lag,size) == moving average of |x[n]-x[n-lag]|, x[<0]=zero; one amdf object on two signals "
             "read alternately and then on the first again"),
  Clause("envelope", strat_envelope, run_envelope, quick=900, thorough=18000,
         floors={"envelope.rms": .08, "envelope.abs": .1, "envelope.squared": .08, "cutoff given": .1},
         doc="envelope.abs/squared == one-pole low-pass of |x| / x^2 exactly (R recomputed); rms = sqrt within 1e-12"),
  Clause("clip", strat_clip, run_clip, quick=800, thorough=16000,
         floors={"clip active": .2, "high<low ValueError": .02, "limits:none/none": .015,
                 "limits:low/none": .02, "limits:none/high": .02, "limits:low/high": .1,
                 "input: clip output": .08, "changed in place since": .05, "earlier limits same": .05,
                 "earlier limits other": .012, "samples:int / plain Fraction among them": .12,
                 "a limit of type float": .1, "a limit of type int": .02, "a limit of type Fraction": .05,
                 "sample a hair off a limit": .03, "sample a hair beyond a limit, no Q": .012},
         doc="clip idempotent (through a list and on the returned Stream itself), within non-None limits, identity "
             "inside; ValueError iff high<low; samples and limits of type Q / int / plain Fraction / float (limits), "
             "samples on and a hair beside the limits; the input may be the Stream an earlier clip call returned "
             "(same or other limits), changed in place since by map / append / abs / skip / limit"),
  Clause("zcross", strat_zcross, run_zcross, quick=1000, thorough=20000,
         floors={"crossing": .15, "first_sign given": .15, "first_sign=0": .1, "hysteresis>0": .2,
                 "hysteresis=0": .08, "sample inside band": .08, "sample on threshold": .06,
                 "samples:int / plain Fraction among them": .15, "hysteresis of type float": .06,
                 "hysteresis of type Fraction": .06, "sample a hair off a threshold": .05,
                 "sample a hair beyond a threshold, no Q": .03, "sample a hair beyond a float threshold, no Q": .015},
         doc="zcross == zcross_ref state machine; one output per input; samples Q / int / plain Fraction, hysteresis "
             "Q / int / Fraction / float, samples on the thresholds and a hair (1e-17..2**-70) beside them"),
  Clause("unwrap", strat_unwrap, run_unwrap, quick=1000, thorough=20000,
         floors={"corrected": .15, "no jump": .1, "several jumps": .15, "diff on max_delta": .05},
         doc="unwrap: out-x multiples of step, identity without jumps, adjacent output jump <= max(max_delta, step/2)"),
  Clause("unwrap_wide", strat_unwrap_wide, run_unwrap, quick=800, thorough=16000,
         floors={"samples:int": .12, "samples:Fraction": .12, "samples:Q": .05, "params:int": .05,
                 "params:Fraction": .1, "jump beyond 2**53": .2, "jump a hair off half-step tie": .08,
                 "jump on half-step tie": .08, "max_delta<step/2": .15, "corrected": .3},
         doc="unwrap on int / plain Fraction / Q samples and parameters (types that do not absorb a float), with "
             "jumps beyond 2**53 and jumps on or a hair (1e-17..2**-70) off a half-step tie: same three assertions, exact"),
  Clause("long_inputs", strat_long, run_long, quick=140, thorough=1400,
         floors={"tool:maverage": .12, "tool:amdf": .08, "tool:envelope": .05, "kind:Q": .08, "kind:int": .25,
                 "n>=1280": .4, "n>=40*size": .15, "size>32": .03},
         doc="inputs of 1000..4000 (thorough ..12000) samples, given as (seed, palette): every maverage strategy and "
             "amdf against sliding exact window sums (windows up to 80 / 200 samples; ints with 2^k windows, Q with any), "
             "and accumulate / zcross / unwrap / clip through their short-input oracles; envelope (every strategy) on "
             "int samples against the one-pole recursion in double precision (1e-9)"),
]
