#!/usr/bin/env python3
"""tools/seedimport.py <ID> <name> [--missed-first "what was strengthened"]
Copies a confirmed independently-written change from /tmp/seeded-out/<ID>/<name> to
/verif/seeded/<ID>-<name>/ and records what was run (from confirm.log)."""
import json, os, re, shutil, sys
pid, name = sys.argv[1], sys.argv[2]
missed = sys.argv[4] if len(sys.argv) > 4 and sys.argv[3] == "--missed-first" else None
src = "%s/%s/%s" % (os.environ.get("SEEDROOT", "/tmp/seeded-out"), pid, name)
dst = "/verif/seeded/%s-%s" % (pid, name)
if os.path.exists(dst) and os.environ.get("SEEDROOT"):
  dst += "-r2"
log = open(os.path.join(src, "confirm.log")).read()
sec = dict(re.findall(r"== ([a-z ]+)\n(.*?)(?=\n== |\Z)", log, flags=re.S))
ex = {k: int(re.findall(r"exit (\d+)", v)[-1]) for k, v in sec.items() if re.findall(r"exit (\d+)", v)}
ok = (ex.get("demo on unchanged tree") == 0 and ex.get("apply") == 0 and ex.get("demo with change") == 1
      and ex.get("suite") == 0)
if not ok:
  print("NOT CONFIRMED", pid, name, ex); sys.exit(1)
os.makedirs(dst, exist_ok=True)
for f in ("patch.diff", "demo.py"):
  shutil.copy(os.path.join(src, f), os.path.join(dst, f))
meta = json.load(open(os.path.join(src, "meta.json")))
clauses = sorted(set(re.findall(r"clause=(\S+)", sec.get("check", ""))))
meta.update({
  "property": pid,
  "written_by": "independent sub-agent given only the property text and a scratch worktree of /repo (nothing from /verif)",
  "what_i_ran": [
    "git worktree add --detach /tmp/confirm-%s-%s HEAD (of /repo, with all fix: commits); removed afterwards" % (pid, name),
    "demo.py on the unchanged worktree -> exit %d" % ex["demo on unchanged tree"],
    "git apply patch.diff -> exit %d" % ex["apply"],
    "demo.py with the change -> exit %d" % ex["demo with change"],
    "/verif/tools/run_suite.py (the pinned pytest command; all 2582 baseline ids must pass) -> exit %d" % ex["suite"],
    "VERIF_REPO=<worktree> ./check %s quick -> exit %d" % (pid, ex.get("check", -1)),
  ],
  "check_exit": ex.get("check"),
  "caught_by_clauses": clauses,
  "first_violation": (re.findall(r"detail=(.*)", sec.get("check", "")) or [""])[0][:400],
})
if missed:
  meta["missed_at_first"] = True
  meta["strengthened"] = missed
json.dump(meta, open(os.path.join(dst, "meta.json"), "w"), indent=1)
print("imported", dst, "check_exit", ex.get("check"), clauses)
