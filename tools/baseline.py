#!/usr/bin/env python3
"""Runs the repository's pinned suite (guard off) and compares with BASELINE.json stable_pass."""
import json, os, subprocess, sys, tempfile
import xml.etree.ElementTree as ET
base = json.load(open("/root/.vp/BASELINE.json"))
out = tempfile.mktemp(suffix=".xml", prefix="/tmp/baseline-")
env = dict(os.environ); env.pop("AUDIOLAZY_VERIF", None)
cmd = base["cmd"].replace("<file>", out)
r = subprocess.run(cmd, shell=True, env=env, stdout=subprocess.PIPE, stderr=subprocess.STDOUT, text=True)
passed = set()
for tc in ET.parse(out).getroot().iter("testcase"):
  if not any(ch.tag in ("failure", "error", "skipped") for ch in tc):
    passed.add("%s::%s" % (tc.get("classname"), tc.get("name")))
os.remove(out)
subprocess.run("git -C /repo checkout -- .coverage", shell=True)  # pytest-cov rewrites this tracked file
want = set(base["stable_pass"])
missing = sorted(want - passed)
print("stable_pass: %d, passed now: %d, missing: %d, newly passing: %d" % (len(want), len(passed), len(missing), len(passed - want)))
for m in missing[:40]:
  print("  MISSING", m)
sys.exit(1 if missing else 0)
