#!/usr/bin/env python3
"""tools/seedround.py   tags seeded/<ID>-<name>/meta.json with the round it came from (seeded/round<N>-initial.txt lists
what the mechanical confirmation gave when the change arrived) and prints the DESIGN table rows of a round:
   tools/seedround.py tag        ;    tools/seedround.py rows 6"""
import glob, json, os, re, sys
def initial(n):
  out = {}
  p = "/verif/seeded/round%d-initial.txt" % n
  if os.path.exists(p):
    for l in open(p):
      m = re.match(r"(C\d\d) ([^:]+): .*suite=(\d+) check=(\d+)", l)
      if m:
        out[(m.group(1), m.group(2))] = (int(m.group(3)), int(m.group(4)))
  return out
if sys.argv[1] == "tag":
  for n in (6, 7):
    for (pid, name), (su, ck) in initial(n).items():
      for d in ("/verif/seeded/%s-%s" % (pid, name), "/verif/seeded/%s-%s-r2" % (pid, name)):
        mp = d + "/meta.json"
        if os.path.exists(mp):
          m = json.load(open(mp))
          if m.get("round") != n and "round" not in m:
            m["round"] = n; m["initial_check_exit"] = ck
            json.dump(m, open(mp, "w"), indent=1)
else:
  n = int(sys.argv[2]); tot = caught = 0
  for mp in sorted(glob.glob("/verif/seeded/*/meta.json")):
    m = json.load(open(mp))
    if m.get("round") != n:
      continue
    tot += 1
    name = os.path.basename(os.path.dirname(mp))
    if m.get("missed_at_first"):
      print("| %s `%s` | %s |" % (m["property"], name[4:], m["strengthened"].replace("|", "\\|")))
    else:
      caught += 1
  print("\n%d kept, %d caught as the checks stood, %d missed at first" % (tot, caught, tot - caught), file=sys.stderr)
