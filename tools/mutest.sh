#!/bin/bash
# tools/mutest.sh <ID> <patch.diff> [tier]   -> runs the check against a scratch copy with the patch applied
ID="$1"; DIFF="$(realpath "$2")"; TIER="${3:-quick}"
S="$(mktemp -d /tmp/mutest.XXXXXX)"
trap 'rm -rf "$S"' EXIT
cp -r /repo/audiolazy "$S/" && rm -rf "$S/audiolazy/__pycache__"
( cd "$S" && patch -s -p1 --no-backup-if-mismatch < "$DIFF" ) || { echo "PATCH-FAILED $DIFF"; exit 3; }
cd "$(dirname "$0")/.." && VERIF_REPO="$S" VERIF_EVIDENCE_DIR="$S/evidence" VERIF_REPLAY_DIR="$S/replays" ./check "$ID" "$TIER" ${MUTEST_ARGS} > "$S/out.txt" 2>&1
rc=$?
grep -E "^VIOLATION|detail=|HARNESS" "$S/out.txt" | head -${MUTEST_LINES:-3}
echo "mutest $ID $(basename "$DIFF") -> exit $rc"
[ $rc -eq 1 ]
