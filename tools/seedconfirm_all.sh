#!/bin/bash
# tools/seedconfirm_all.sh <round> <ID> [parallel]   confirms every delivered change of one property
R="$1"; ID="$2"; P="${3:-3}"
ls -d /tmp/seeded-out$R/$ID/*/ 2>/dev/null | xargs -P "$P" -I{} /verif/tools/seedconfirm.sh "$ID" {}
