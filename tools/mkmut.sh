#!/bin/bash
# tools/mkmut.sh <ID> <name> <file-under-audiolazy> <sed-expr>...  -> writes mutants/<ID>/<name>.diff (a/ b/ paths)
ID="$1"; NAME="$2"; FILE="$3"; shift 3
T="$(mktemp -d /tmp/mkmut.XXXXXX)"; trap 'rm -rf "$T"' EXIT
mkdir -p "$T/a/audiolazy" "$T/b/audiolazy" "$(dirname "$0")/../mutants/$ID"
cp "/repo/audiolazy/$FILE" "$T/a/audiolazy/$FILE"; cp "/repo/audiolazy/$FILE" "$T/b/audiolazy/$FILE"
for e in "$@"; do sed -i "$e" "$T/b/audiolazy/$FILE"; done
( cd "$T" && diff -u "a/audiolazy/$FILE" "b/audiolazy/$FILE" ) > "$(dirname "$0")/../mutants/$ID/$NAME.diff"
[ -s "$(dirname "$0")/../mutants/$ID/$NAME.diff" ] || { echo "EMPTY DIFF for $NAME"; rm "$(dirname "$0")/../mutants/$ID/$NAME.diff"; exit 1; }
/venv/bin/python -W ignore -c "import ast,sys; ast.parse(open('$T/b/audiolazy/$FILE').read())" || echo "SYNTAX ERROR in $NAME"
