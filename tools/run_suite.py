#!/venv/bin/python
"""tools/run_suite.py <worktree>  - runs the pinned repository suite inside <worktree> (a checkout of
/repo) and requires every BASELINE.json stable_pass id to pass.  Exit 0 = all pinned ids pass."""
import json, os, subprocess, sys, tempfile
import xml.etree.ElementTree as ET
wt = os.path.realpath(sys.argv[1])
base = json.load(open("/root/.vp/BASELINE.json"))
fd, out = tempfile.mkstemp(suffix=".xml", prefix="suite-"); os.close(fd)
env = dict(os.environ); env.pop("AUDIOLAZY_VERIF", None)
env["PYTHONPATH"] = wt; env["PYTHONDONTWRITEBYTECODE"] = "1"
cmd = base["cmd"].replace("cd /repo", "cd " + wt).replace("<file>", out)
r = subprocess.run(cmd, shell=True, env=env, stdout=subprocess.PIPE, stderr=subprocess.STDOUT, text=True)
passed = set()
try:
  for tc in ET.parse(out).getroot().iter("testcase"):
    if not any(ch.tag in ("failure", "error", "skipped") for ch in tc):
      passed.add("%s::%s" % (tc.get("classname"), tc.get("name")))
finally:
  os.remove(out)
want = set(base["stable_pass"])
missing = sorted(want - passed)
print("stable_pass: %d, passed now: %d, missing: %d" % (len(want), len(passed), len(missing)))
for m in missing[:30]:
  print("  MISSING", m)
sys.exit(1 if missing else 0)
