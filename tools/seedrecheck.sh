#!/bin/bash
# tools/seedrecheck.sh <ID> <dir>   re-runs only the "== check" part of a confirmation (after the check was extended)
# and rewrites that section of <dir>/confirm.log; demo / apply / suite results stay as confirmed before.
ID="$1"; SRC="$(realpath "$2")"; NAME="$(basename "$SRC")"
S="$(mktemp -d /tmp/recheck.XXXXXX)"; trap 'rm -rf "$S"' EXIT
cp -r /repo/audiolazy "$S/" && rm -rf "$S/audiolazy/__pycache__"
( cd "$S" && patch -s -p1 --no-backup-if-mismatch < "$SRC/patch.diff" ) || { echo "$ID $NAME: PATCH-FAILED"; exit 3; }
out=$(cd /verif && VERIF_REPO="$S" VERIF_EVIDENCE_DIR="$S/.ev" VERIF_REPLAY_DIR="$S/.rp" ./check "$ID" quick 2>&1 | grep -E "^VIOLATION|detail=|HARNESS|quick seed" | head -8; exit ${PIPESTATUS[0]})
ck=$?
/venv/bin/python - "$SRC/confirm.log" "$ck" <<PY
import sys, re
p, ck = sys.argv[1], sys.argv[2]
s = open(p).read()
s = s.split("== check")[0] + "== check\n" + """$out""".replace("$S", "<scratch>") + "\nexit %s\n" % ck
open(p, "w").write(s)
PY
echo "$ID $NAME: recheck=$ck"
