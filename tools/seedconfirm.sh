#!/bin/bash
# tools/seedconfirm.sh <ID> <dir-with-patch.diff+demo.py+meta.json>
# Confirms an independently written change in a scratch worktree of /repo:
#   demo passes on the unchanged tree, patch applies, demo fails with it, the pinned repository
#   suite still passes, and then runs the property's quick check against it.
ID="$1"; SRC="$(realpath "$2")"; NAME="$(basename "$SRC")"
WT="/tmp/confirm-$ID-$NAME"
LOG="$SRC/confirm.log"
rm -rf "$WT"; git -C /repo worktree prune
git -C /repo worktree add -q --detach "$WT" HEAD || { echo "$ID $NAME: WORKTREE-FAILED"; exit 2; }
trap 'git -C /repo worktree remove --force "$WT" 2>/dev/null; rm -rf "$WT"' EXIT
{
  echo "== demo on unchanged tree"; ( cd "$WT" && PYTHONPATH="$WT" timeout 300 /venv/bin/python -W ignore "$SRC/demo.py" ); d0=$?
  echo "exit $d0"
  echo "== apply"; git -C "$WT" apply "$SRC/patch.diff"; ap=$?
  echo "exit $ap"
  echo "== demo with change"; ( cd "$WT" && PYTHONPATH="$WT" timeout 300 /venv/bin/python -W ignore "$SRC/demo.py" ); d1=$?
  echo "exit $d1"
  echo "== suite"; /verif/tools/run_suite.py "$WT" | tail -5; su=${PIPESTATUS[0]}
  echo "exit $su"
  find "$WT" -name "*.orig" -delete; rm -f "$WT/.coverage"
  echo "== check"
  cd /verif && VERIF_REPO="$WT" VERIF_EVIDENCE_DIR="$WT/.ev" VERIF_REPLAY_DIR="$WT/.rp" ./check "$ID" quick 2>&1 | grep -E "^VIOLATION|detail=|HARNESS|quick seed" | head -8; ck=${PIPESTATUS[0]}
  echo "exit $ck"
} > "$LOG" 2>&1
echo "$ID $NAME: demo_clean=$d0 apply=$ap demo_changed=$d1 suite=$su check=$ck"
