#!/usr/bin/env python3
"""Writes seeded/RESULTS.md from the meta.json files."""
import json, os, glob
rows = []
for d in sorted(glob.glob("/verif/seeded/*/")):
  mp = os.path.join(d, "meta.json")
  if not os.path.exists(mp):
    continue
  m = json.load(open(mp))
  rows.append((m["property"], os.path.basename(d.rstrip("/")), m))
out = ["# Independently seeded changes: which check catches which",
       "",
       "Each change was written by a fresh sub-agent that saw only the property text and its own scratch worktree",
       "of /repo. Each was confirmed here in a scratch worktree (`tools/seedconfirm.sh`): demo passes on the unchanged",
       "tree, patch applies, demo fails with it, the pinned repository suite still passes (all 2582 baseline ids),",
       "and then the property's quick check was run against it. `./selftest` re-runs all of them.",
       "",
       "| property | change | needs to manifest | caught by clause(s) | missed at first? |",
       "|---|---|---|---|---|"]
missed = 0
for pid, name, m in rows:
  need = m.get("needs_to_manifest", "").replace("|", "\\|").replace("\n", " ")
  if len(need) > 260:
    need = need[:257] + "..."
  mf = "yes - " + m["strengthened"].replace("|", "\\|") if m.get("missed_at_first") else "no"
  missed += bool(m.get("missed_at_first"))
  out.append("| %s | `%s` | %s | %s | %s |" % (pid, name, need, ", ".join(m.get("caught_by_clauses", [])) or "-", mf))
out += ["", "%d changes, all caught by the quick tier now; %d were missed by the first version of the check and led to a strengthening (last column)." % (len(rows), missed), ""]
open("/verif/seeded/RESULTS.md", "w").write("\n".join(out))
print(len(rows), "changes,", missed, "missed at first")
