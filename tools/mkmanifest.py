#!/usr/bin/env python3
"""Regenerates MANIFEST.json from the table below (keeps it schema-valid)."""
import json, os, sys
ROOT = os.path.dirname(os.path.dirname(os.path.abspath(__file__)))
ALL = ["C%02d" % i for i in range(1, 21)]

# id -> (technique, level text, level note, design ref)
CHECKS = {
  "C08": ("Hypothesis + exhaustive small grid vs reference model (blocks_ref), snapshots at yield time",
          "Generated-input search: every generated (items, size, hop, pad, entry point) is compared block by block with a 10-line slice model; a complete small grid is enumerated as well. Gives falsification power over all three hop regimes and tail rules, not a proof.",
          "Trusts Python slicing for the model; bounded sizes (len<=200, size<=9, hop<=size+6).", "3/C08"),
  "C15": ("exhaustive enumeration of bounded histories + Hypothesis histories vs reference model (mkd_model), state compared through the public API after every step",
          "All histories up to length 4 (quick) / 5 (thorough) over 27 operations are enumerated against an ordered-groups model; longer random histories over hash-equal key/value spellings and a StrategyDict machine (items == attributes, default selection) add depth. Exhaustive within the bound, sampled beyond.",
          "Model written from the property text; keys/values compared with ==; StrategyDict default never assigned manually.", "3/C15"),
  "C07": ("Hypothesis vs independent dict-of-Fractions polynomial arithmetic, plus ring-law, homomorphism, round-trip (integrate/diff) and interpolation oracles, all exact",
          "Generated Laurent polynomials with exact rational coefficients through four construction routes; every operator result is compared term by term with an independent reference arithmetic, and the stated laws are asserted as exact equalities. Falsification power over the whole operator surface; sampled, not exhaustive.",
          "Coefficients are Q (exact); powers -4..6, at most 6 terms, exponents 0..5; composition only where defined.", "3/C07"),
  "C04": ("Hypothesis vs reference model (diffeq_ref: the difference equation evaluated in exact Fractions), exact equality on Q samples",
          "Generated coefficient vectors with forced special classes (0, +-1, ints, arbitrary floats, Fractions, sparse delays), five construction routes, seven memory kinds and six zero values; every output sample is compared exactly with an independent evaluation of the difference equation, so a wrong sign on a special-cased path, a one-sample state shift or a mis-read memory shows on almost every case. Sampled, not exhaustive.",
          "Samples are Q; floats are taken at their exact binary value; orders <= 9, inputs <= 12 samples; non-dyadic Fraction coefficients compared within 1e-12 x magnitude recursion.", "3/C04"),
  "C14": ("exhaustive enumeration over (strategy/alias, size) + Hypothesis alpha sweeps vs independent closed forms, prefix/symmetry/COLA relations and identity cross-links",
          "Every window name and alias at every size 0..256 (quick) / 0..2048 (thorough) is checked against an independently written closed form (trig arguments folded in integers), the periodic==symmetric-prefix relation with float ==, symmetry, range, the constant hop-shifted sums and all cross-reference identities; alpha families are swept by Hypothesis. Exhaustive in (name, size) within the bound.",
          "Tolerance 1e-12 on closed forms ((1e-12)**alpha for cos with 0<alpha<1); blackman range claim only for alpha <= 0.25; missing wsymm aliases are not asserted.", "3/C14"),
  "C18": ("Hypothesis + enumerated boundary grids vs one-shot struct.pack (differential: struct strategy, array strategy, oracle) and WAV round trip through the stdlib wave module",
          "chunks: both strategies, seven formats, all byte orders, sizes crossing 127/128/255/256, ragged tails and pad values are compared byte-for-byte with a single struct.pack of the padded sequence; WavStream: files written by the stdlib wave module (24-bit packed by hand) are decoded and compared exactly (ints with keep, dyadic floats otherwise), header mirrored, file descriptor closed after exhaustion. Sampled plus enumerated boundary grids; thorough decodes every 8- and 16-bit value.",
          "Trusts struct and wave from the standard library as the codec oracle; floats for 'f' are float32-representable; rates <= 2**28.", "3/C18"),
  "C05": ("Hypothesis (incl. recursive expression-tree strategy) vs an independent rational-function arithmetic (cross-multiplication equality) and diffeq_ref outputs; metamorphic identities between the library's own two sides",
          "Generated filter pairs/triples with integer coefficients, scalars, exponents, delays and expression trees over + - * / ** neg and substitution; each composite filter is compared with an independent rational-function model (by cross-multiplication) and its output with the difference equation of the expected function, as well as with the composition of the parts' outputs; Cascade/Parallel outputs and polynomials; ==/!=/hash over construction routes and numeric spellings. Sampled, depth <= 3.",
          "Integer coefficients (exact printing); divisions by scalars only for powers of two; negative powers of single-term filters excluded where Python's float power leaves exact arithmetic.", "3/C05"),
}
NOT_BUILT = "check not built yet in this session (planned in DESIGN.md section 3); no claim is made until it is"

def main():
  checks = []
  for pid in ALL:
    if pid not in CHECKS:
      continue
    tech, text, note, ref = CHECKS[pid]
    checks.append({
      "property_id": pid,
      "quick_cmd": "./check %s quick" % pid,
      "thorough_cmd": "./check %s thorough" % pid,
      "evidence_file": "/verif/evidence/%s.json" % pid,
      "replay_cmd_template": "./check %s --replay {path}" % pid,
      "engine": "pbt-runner",
      "level_claimed": {"category": "exploration", "text": text, "design_ref": "DESIGN.md section " + ref},
      "level_note": note,
      "technique": tech,
    })
  man = {
    "version": 1,
    "setup_cmd": "./setup.sh",
    "hooks": {
      "guard": "AUDIOLAZY_VERIF",
      "enable": "no source hooks exist: all instrumentation is external (counting iterators, fake pyaudio/_portaudio modules, replaced lazy_io.threading); ./check exports AUDIOLAZY_VERIF=1 for uniformity only",
      "baseline_off_cmd": "cd /repo && env -u AUDIOLAZY_VERIF /venv/bin/python -m pytest -ra -q -p no:cacheprovider --timeout=900 --continue-on-collection-errors",
      "source_commits": [],
      "add_only": True,
    },
    "engines": [{
      "name": "pbt-runner", "path": "/verif/vlib",
      "serves_properties": [c["property_id"] for c in checks],
      "kind_free_text": "Hypothesis (seeded from VERIF_SEED, sharded over 16 processes) + exhaustive enumeration of small finite domains; cases are plain JSON data, run_case(case) is a pure function with an explicit oracle; shrunk failing case = replay file",
    }],
    "checks": checks,
    "notes": "See DESIGN.md. ./check <ID> quick|thorough ; ./check <ID> --replay <file>. Exit 0 held / 1 VIOLATION / 2 harness error.",
    "not_applicable": [{"property_id": p, "reason": NOT_BUILT} for p in ALL if p not in CHECKS],
  }
  with open(os.path.join(ROOT, "MANIFEST.json"), "w") as f:
    json.dump(man, f, indent=1)
    f.write("\n")

if __name__ == "__main__":
  main()
