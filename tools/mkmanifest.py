#!/usr/bin/env python3
"""Regenerates MANIFEST.json from the table below (keeps it schema-valid)."""
import json, os, sys
ROOT = os.path.dirname(os.path.dirname(os.path.abspath(__file__)))
ALL = ["C%02d" % i for i in range(1, 21)]

# id -> (technique, level text, level note, design ref)
CHECKS = {
  "C08": ("Hypothesis + exhaustive small grid vs reference model (blocks_ref), snapshots at yield time",
          "Generated-input search: every generated (items, size, hop, pad, entry point) is compared block by block with a 10-line slice model; a complete small grid is enumerated as well. Gives falsification power over all three hop regimes and tail rules, not a proof.",
          "Trusts Python slicing for the model; bounded sizes (len<=200, size<=9, hop<=size+6).", "3/C08"),
  "C15": ("exhaustive enumeration of bounded histories + Hypothesis histories vs reference model (mkd_model), state compared through the public API after every step",
          "All histories up to length 4 (quick) / 5 (thorough) over 27 operations are enumerated against an ordered-groups model; longer random histories over hash-equal key/value spellings and a StrategyDict machine (items == attributes, default selection) add depth. Exhaustive within the bound, sampled beyond.",
          "Model written from the property text; keys/values compared with ==; StrategyDict default never assigned manually.", "3/C15"),
  "C07": ("Hypothesis vs independent dict-of-Fractions polynomial arithmetic, plus ring-law, homomorphism, round-trip (integrate/diff) and interpolation oracles, all exact",
          "Generated Laurent polynomials with exact rational coefficients through four construction routes; every operator result is compared term by term with an independent reference arithmetic, and the stated laws are asserted as exact equalities. Falsification power over the whole operator surface; sampled, not exhaustive.",
          "Coefficients are Q (exact); powers -4..6, at most 6 terms, exponents 0..5; composition only where defined.", "3/C07"),
  "C04": ("Hypothesis vs reference model (diffeq_ref: the difference equation evaluated in exact Fractions), exact equality on Q samples",
          "Generated coefficient vectors with forced special classes (0, +-1, ints, arbitrary floats, Fractions, sparse delays), five construction routes, seven memory kinds and six zero values; every output sample is compared exactly with an independent evaluation of the difference equation, so a wrong sign on a special-cased path, a one-sample state shift or a mis-read memory shows on almost every case. Sampled, not exhaustive.",
          "Samples are Q; floats are taken at their exact binary value; orders <= 9, inputs <= 12 samples; non-dyadic Fraction coefficients compared within 1e-12 x magnitude recursion.", "3/C04"),
  "C14": ("exhaustive enumeration over (strategy/alias, size) + Hypothesis alpha sweeps vs independent closed forms, prefix/symmetry/COLA relations and identity cross-links",
          "Every window name and alias at every size 0..256 (quick) / 0..2048 (thorough) is checked against an independently written closed form (trig arguments folded in integers), the periodic==symmetric-prefix relation with float ==, symmetry, range, the constant hop-shifted sums and all cross-reference identities; alpha families are swept by Hypothesis. Exhaustive in (name, size) within the bound.",
          "Tolerance 1e-12 on closed forms ((1e-12)**alpha for cos with 0<alpha<1); blackman range claim only for alpha <= 0.25; missing wsymm aliases are not asserted.", "3/C14"),
  "C18": ("Hypothesis + enumerated boundary grids vs one-shot struct.pack (differential: struct strategy, array strategy, oracle) and WAV round trip through the stdlib wave module",
          "chunks: both strategies, seven formats, all byte orders, sizes crossing 127/128/255/256, ragged tails and pad values are compared byte-for-byte with a single struct.pack of the padded sequence; WavStream: files written by the stdlib wave module (24-bit packed by hand) are decoded and compared exactly (ints with keep, dyadic floats otherwise), header mirrored, file descriptor closed after exhaustion. Sampled plus enumerated boundary grids; thorough decodes every 8- and 16-bit value.",
          "Trusts struct and wave from the standard library as the codec oracle; floats for 'f' are float32-representable; rates <= 2**28.", "3/C18"),
  "C05": ("Hypothesis (incl. recursive expression-tree strategy) vs an independent rational-function arithmetic (cross-multiplication equality) and diffeq_ref outputs; metamorphic identities between the library's own two sides",
          "Generated filter pairs/triples with integer coefficients, scalars, exponents, delays and expression trees over + - * / ** neg and substitution; each composite filter is compared with an independent rational-function model (by cross-multiplication) and its output with the difference equation of the expected function, as well as with the composition of the parts' outputs; Cascade/Parallel outputs and polynomials; ==/!=/hash over construction routes and numeric spellings. Sampled, depth <= 3.",
          "Integer coefficients (exact printing); divisions by scalars only for powers of two; negative powers of single-term filters excluded where Python's float power leaves exact arithmetic.", "3/C05"),
  "C10": ("Hypothesis vs exact normal-equation residuals, defining sums and direct convolution energy (all equalities in Q); singular-minor oracle for ParCorError",
          "Autocorrelation vectors generated from reflection coefficients (oracle-side inverse Levinson), from data and freely; levinson_durbin / lpc.kautocor / lpc.kcovar outputs must make every Toeplitz or covariance residual exactly zero, report error == sum a[j] r[j] == directly convolved residual energy, and beat generated monic competitors; acorr / lag_matrix / toeplitz equal their defining sums. Sampled.",
          "Samples are Q so the recursion is exact; numpy strategies (nautocor, covar, autocor) are not installed here and are out of scope; when kcovar must raise is not claimed by the property.", "3/C10"),
  "C11": ("Hypothesis + enumerated first-order grid vs oracle step-up recursion (round trip) and exact pole classification by construction",
          "Reflection vectors (any rational magnitude, zeros inside, +-1 included) are stepped up by the oracle and must come back from parcor exactly, with ParCorError exactly when some |k| == 1; parcor(levinson_durbin(r)) returns the generating k and error == r0*prod(1-k^2); parcor_stable is compared with 'every root strictly inside', decided in rationals for denominators built from chosen real / conjugate-pair roots inside, on and outside the circle under any non-zero gain. Sampled + 234 enumerated first-order cases.",
          "Roots are rational / Gaussian-rational so the circle test is exact; float coefficients only in the first-order grid.", "3/C11"),
  "C19": ("Hypothesis vs exact closed forms and reference recursions (modcount_ref, resample_ref with its own Lagrange), tolerance only for sin",
          "line/fades/ones/zeros/impulse/noise/adsr/attack lengths and shapes; modulo_counter against the naive recursion on all 8 number-vs-stream branches and the batched fast path (label floors on fast path and wraps); TableLookup interpolation and oscillator; sinusoid; karplus_strong vs the direct comb recursion; resample vs an independent Lagrange window model incl. where the output must end. Sampled.",
          "Q arguments make the comparisons exact; float frequencies snapped away from denormals; TableLookup index >= 0 (the oscillator's range).", "3/C19"),
  "C20": ("Hypothesis vs defining formulas evaluated in exact arithmetic (moving sums, running sums, one-pole recursion, zcross_ref state machine, unwrap predicates)",
          "All maverage strategies against c*sum(last size samples) with c the double 1/size taken exactly, all accumulate strategies against running sums, amdf, envelopes (pole recomputed by the oracle), clip idempotence/bounds/identity, zcross against a state machine written from the statement with samples placed on the thresholds, unwrap's three predicates. Sampled.",
          "Samples are Q; 1e-12 tolerance only where the code's own float constant or sqrt enters; unwrap([]) is outside the property.", "3/C20"),
  "C01": ("Hypothesis (operator matrix, recursive expression trees, broadcast functions) + enumerated method x operand-kind grid vs an independent list interpreter; bounded counting sources for laziness",
          "All 35 dunders are called directly on 9 Stream kinds against 8 operand kinds and 8 element families; expression trees up to depth 3/4 through operator syntax (reflected dispatch); 47 broadcast functions over 17 container kinds. Oracle = zip-to-shortest list interpreter using the same builtin operator on the same elements (value, type and float bits; same exception type at the same index), container kind preserved, zero source pulls before iteration. Sampled + enumerated grid.",
          "Element-level arithmetic is Python's own (used by the oracle too); endless operands are pull-bounded sources so an eager stage fails with OverRead instead of hanging; post-end next() behaviour is not claimed.", "3/C01"),
  "C03": ("Hypothesis histories (plain-data step lists interpreted against real objects and a prefix+cycle list model) + enumerated count grid; model-tracked peeks after every step",
          "Histories over a pool of finite, periodic and pull-bounded endless streams, tee outputs and hubs: take/peek/skip/limit with every count class (None, negative, 0, within, equal, beyond, floats incl. halves, +-inf, nan), append, map, filter, copy, tee, thub, iteration; every return value and exception is compared with the model and the next items of every live object are checked, so interleaved consumption of copies must stay independent; exactly n hub uses then IndexError. Sampled + 3306 enumerated (source, length, method, count) combinations.",
          "skip/limit with exact-half floats or inf are excluded (rounding unspecified); model written from the property text.", "3/C03"),
  "C12": ("Hypothesis vs independent fsum evaluation with an a-priori rounding-error bound; differential time-domain links (impulse response DFT, complex exponential through FIR); dft vs its defining sum and linearity",
          "freq_response of generated filters (FIR, pole sections inside/outside, integer denominators, exact root at z=1 -> nan) against B/A evaluated independently within a proved bound; per-element application over 10 container kinds with bit-equality to the scalar call; cascade = product, parallel = sum (0-3 members, nesting); FIR impulse response DFT == H(w); e^{jwn} through FIR scaled by H(w); dft == defining sum, linear, exact DC bin. Sampled.",
          "Tolerance epsilon = 64(order+2)2^-53(...) as derived in DESIGN; denominators bounded away from zero at the probed frequency (2-6% domain rejects).", "3/C12"),
  "C13": ("Hypothesis + enumerated forced cut-offs vs analytic contracts evaluated independently from the returned coefficients (gain at DC/Nyquist/cut-off, monotonicity grid, pole location, exact comb recursion in Q)",
          "lowpass/highpass x 4 strategies: unit gain at the edge, half power at cut-off and monotone magnitude for pole/z, pole strictly inside; resonators: z^-2 coefficient e^-bw, unit gain at the derived resonant frequency where it exists; comb fb/ff/tau: exact recursion on Q input; gammatone: cascade, stable sections, unit gain at centre; stream-valued parameters equal the constant design sample by sample. Sampled + 23 forced cut-offs x 8 strategies.",
          "Tolerances 1e-9 / 1e-6 / 1e-12 as stated in DESIGN (head-room >= 1e3 over probed error); gammatone gain tolerance widened by the coefficients' condition number where double precision cannot express 1e-6.", "3/C13"),
  "C16": ("Hypothesis histories + enumerated 2/3-event grid vs reference model (mixer_ref: exact cumulative start times, nearest-sample rule, late additions); closed-form drift clause; ControlStream read/assign interleavings",
          "add/next/take histories with integer, rational (exact .5 ties) and dyadic-float deltas, empty events, late additions, keep on/off and nine zero values (incl. a mutable vector type) are compared sample by sample with the model; 30-400 equal fractional deltas must start at nearest(d0+i*d) computed without accumulation; a negative delta raises ValueError and changes nothing; ControlStream yields the last assigned value at every read, alone and inside expressions. Sampled + 2646 enumerated mixes.",
          "Deltas as Q make 'count -= delta' exact; an exact half-sample tie starts at the earlier sample (the anchored 'count >= delta').", "3/C16"),
  "C02": ("enumerated stage table (530 rows x parameters x k x source modes) + Hypothesis single stages, chains and fan-out schedules, observed through counting / pull-bounded sources",
          "Every public stage has a table row (builder, need(k), domain): 0 reads at construction and at iter(), reads == need(j) after every output j <= k (<= for maximal rows), OverRead on a bounded source anywhere is a violation, so an eager stage fails instead of hanging; chains of 2-4 stages compose their need functions; tee/thub/copy fan-outs under generated consumer schedules read exactly as far as the furthest consumer. Enumerated per row in both tiers + sampled chains.",
          "need(k) table written from the property and documented look-aheads; a filter's memory iterable (read at call time) and combinatoric itertools wrappers (read their pool by definition) are outside the claim; numpy-backed strategies not installed.", "3/C02"),
  "C06": ("Hypothesis vs reference model (diffeq_ref with per-sample coefficient lookup on element-wise combined coefficient sequences), counting sources for pull accounting",
          "Filter shapes with any subset of coefficients (a[0] included) replaced by finite, periodic or constant Streams over counting sources, built by three routes; sums, differences, products, scalings, delays and a self-product sharing Streams: every output must equal the time-varying difference equation exactly, the output must end cleanly with the shortest of input and coefficient streams, and every source must have been read exactly once per output. Sampled.",
          "Values are Q; sums use structurally different (or constant-equal) denominators so the documented cross-multiplied form applies; numerators are never identically zero (that annihilates the streams they multiply).", "3/C06"),
  "C09": ("Hypothesis vs reference model (ola_ref: the defining windowed hop-shifted sum in Fractions), round trip (blocks -> overlap-add with constructed sum-to-one windows), recorded-wiring oracle for the stft wrapper",
          "overlap_add.list over all block counts incl. 0, hop <= size, seven window kinds (negative and zero entries), normalise on/off/default, given or detected size and six block container kinds is compared sample by sample with the defining sum and the stated gain; signals blocked by Stream.blocks and overlap-added with windows constructed to sum to one are reconstructed exactly on fully covered samples; stft: blocks reaching the user function == window x block, stage order, ola_ options stripped and forwarded, build/call-time option split and override, calling styles, refusals. Sampled.",
          "Q samples; no-window gain is the code's double 1/ceil(size/hop); only the pure-Python overlap_add.list strategy (numpy absent).", "3/C09"),
  "C17": ("Hypothesis over (control history, schedule) pairs driving a deterministic baton scheduler that owns every synchronisation point (and, in the line tier, every source line of lazy_io.py) with a fake PyAudio backend; deadlock = state with no enabled thread",
          "AudioIO/AudioThread run unmodified on real threads of which exactly one holds the baton; the generated schedule chooses the next thread at every lock/event/thread operation and backend call (quick: 6000 + 1500 line-level schedules; thorough: 60000 + 30000), for 1-3 players (finite and endless audio), pause/play/stop/spawn histories, close / with / terminate, wait on/off. Safety: chunks of exactly chunk_size frames concatenating to a prefix (the whole, if never stopped and waited) of the zero-padded audio. Shutdown: close returns under every explored schedule (a hang is a detected deadlock state or a step-bound overrun, not a timeout), streams closed once, backend terminated once, no live player, play raises. Bounded, sampled exploration of schedules.",
          "Fake backend and scheduler-aware Lock/Event replace pyaudio/_portaudio and lazy_io.threading from outside; line (not bytecode) granularity; bounded liveness (20000 steps); fair continuation after the generated schedule is used up; control calls come from the main thread only.", "3/C17"),
}

# sentences appended to the level text: what the three seeding rounds added (DESIGN 7.3)
ADDENDA = {
  "C01": " After seeding: finite constant Streams as operands, None among the elements for ==/!=, operand_kept (building a result from a constant Stream or ControlStream leaves the operand yielding its value), a non-commutative element class, every broadcast element bit-identical to the scalar call.",
  "C02": " After seeding: a Stream as attack sustain level, Streamix rows with fractional float deltas.",
  "C03": " After seeding: finite constant streams over itertools.repeat, thub on named non-iterables.",
  "C04": " After seeding: exact_twins (plain Fraction / beyond-2**53 integer coefficients must stay exact, also right after a float-spelled twin ran), long_filters (60-300 taps), complex_coefficients incl. modulus 1, the memory list rewritten after the call, second call of one filter object.",
  "C05": " After seeding: term-order routes for ==/hash, in-place replacement of Cascade/Parallel members after first use, non-list member containers and nesting, linearize, long_filters (34-46 plain-Fraction terms).",
  "C06": " After seeding: read counters checked after the call and after every output, user-made thub coefficients (hub_reuse), division by a delayed Stream gain, filters hashed before use, finite-repeat and plain-Fraction coefficient streams, all three routes in algebra, Stream-denominator filter plus FIR / plus number.",
  "C07": " After seeding: integer-valued float powers, interpolators first called on float/int spellings of the abscissae, polynomials changed item by item after evaluation, source mappings modified after construction, long_polynomials (34-46 plain-Fraction terms).",
  "C08": " After seeding: the Stream mapped/appended in place between blocks() and the first read, tuple/deque inputs, positional size/hop/pad; atheris tier in thorough.",
  "C09": " After seeding: one processor called again with another window of the same size, window functions handing out their own list, ola_ option names sharing letters with the prefix, sibling partials, falsy func/before/after objects, own ola_hop, explicit None options.",
  "C10": " After seeding: kautocor blocks scaled from 2**-40 to 1e6, blocks as list/tuple/deque/deque(maxlen), large_tables (100-260 samples, lags 6-16).",
  "C11": " After seeding: plain Fraction coefficients besides Q, levinson_durbin called first with an order beyond the lags (input unchanged), exact roots at 1 +- 1e-13 and 1 - 2**-60, gains g with g*(1/g) != 1.",
  "C12": " After seeding: list members replaced in place after the first response, Fraction gains, FIR filters of 66-90 taps, repeated (identical-object) members.",
  "C13": " After seeding: another default strategy set on the comb dictionary during a named call, klapuri with plain lists/tuples, an earlier gammatone result modified in place before the second call.",
  "C14": " After seeding: sizes around 512..8192 in the quick tier, default strategies of window / wsymm obey the contracts and correspond.",
  "C15": " After seeding: bound methods fetched anew (equal, not identical) and falsy callables as strategy values, names shadowing dict methods; atheris tier in thorough.",
  "C16": " After seeding: the ControlStream's own reference released, keep changed at run time, events that add the next event from inside the summation, shared_source (several events over one iterator).",
  "C17": " After seeding: chunk packing strategy chosen through chunks.default, default chunk size, with-block left by an exception, players playing recordings of the same manager, several recordings closed together.",
  "C18": " After seeding: array.array and tuple inputs, long WAV files around multiples of 4096 bytes; atheris tier in thorough.",
  "C19": " After seeding: TableLookup .table/.cycles re-assigned after playing, derived tables and normalize(), modcount_long (modulo/step ratios 700-4097 over thousands of samples).",
  "C20": " After seeding: one maverage strategy object on two signals read alternately, envelope cut-offs at the ends of the range given by position or keyword, unwrap with every combination of defaulted parameters.",
}

# fourth seeding round (DESIGN 7.3)
ADDENDA4 = {
  "C01": " Round 4: reading on after a caught element error (later positions still op(a_i, b_i)); 2600-12000 operators deep.",
  "C02": " Round 4: re-iterable counting sources that are not iterators, reads counted over all readers a stage opens.",
  "C03": " Round 4: counts 1-3 ulps from halves / integers judged on the exact value of the float; count box behind filter / map stages.",
  "C04": " Round 4: numerator derived from the denominator with a given memory; long_feedback (orders 40-2000, ramped memories).",
  "C05": " Round 4: high_powers (|n| 5..16 of 1-3-term filters against n-fold application and products).",
  "C06": " Round 4: ControlStream coefficients changed between outputs, numerators with no term, given memories, filter copies, null left operand of a sum.",
  "C07": " Round 4: ==/!=/hash/dict-key coherence on long polynomials reached in different term-creation orders.",
  "C08": " Round 4: lists changed in place between blocks (mutated), user Stream subclasses with their own __iter__, __getitem__-only sequences.",
  "C09": " Round 4: callable+iterable windows and the window dictionaries themselves, overlap_add.default set before / after build, falsy stage results (stft_stage_values).",
  "C10": " Round 4: long_blocks (300-9000 samples), held_results (results judged again after later calls).",
  "C11": " Round 4: reflection vectors cancelling a lag with the default order; stable_float (float denominators of degree up to 20 with non-unit gains).",
  "C12": " Round 4: null_pole (exact nulls before exact poles at DC in cascades / parallel branches, nan propagation).",
  "C13": " Round 4: comb delays to 130 with a caller-given initial state.",
  "C14": " Round 4: earlier results of the same calls changed in place before every check.",
  "C15": " Round 4: attributes replaced by hand followed by the loss of the item; small name pools.",
  "C16": " Round 4: summation order asserted with exact non-commutative + (ordered clause).",
  "C17": " Round 4: nchannels alias checked against what the opened device takes (new repaired defect), refused play() calls in histories.",
  "C18": " Round 4: WAV handed over as positioned file object / BytesIO inside containers with decoys.",
  "C19": " Round 4: karplus lags below two samples (tap on the current sample).",
  "C20": " Round 4: long_inputs (1000-12000 samples, windows to 200), unwrap_wide (jumps beyond 2**53, neighbours of half-step ties).",
}

# fifth seeding round (DESIGN 7.3)
# what the sixth / seventh seeding rounds and the per-property audits added (DESIGN.md 7.3)
ADDENDA6 = {
  "C01": " Rounds 6-7: float-format extremes as elements and scalars (extremes, scalar_grid), operands partly read before the operator (used, used_trees), Stream subclasses / hubs / ControlStreams and user iterables as operands (subclasses, iterables), special MIDI / frequency values; a genuine defect of Stream.__getattr__/__call__ on Stream subclasses is a recorded known finding (canary clause attr_subclasses).",
  "C02": " Rounds 6-7: stages stacked on Streams that already delivered outputs (resumed, resumed_pairs), stage families param-algebra / param-poly / filter-bank (coefficient streams through the filter and polynomial algebra, powers to 7, list operators), long filters, heavy decimation in resample.",
  "C03": " Round 6: enumerated lifecycle clause (every history of up to 3-4 steps on one stream object, stages right after consuming reads and past the end), sources of other iterable kinds, sign of zero / nan / equal-but-different periods told apart, counts at and above sys.maxsize (repaired defect).",
  "C04": " Round 6: exact float samples incl. subnormals (float_samples), enumerated long inputs around powers of two to 32769 / 150001 (long_inputs), another filter call made by a helper thread between the lines of the call under test (other_calls_between), endless and over-long memories, coefficients of any finite magnitude.",
  "C05": " Rounds 6-7: delay-leading divisors and constructor-removed common delays, one scalar spelled as float / int / Fraction in turn (scalar_spellings), operand reuse incl. augmented assignment, lists with repeated members and list arithmetic, substitution by scaled delays, partial-sum denominators equal to another branch's, eq / hash coherence for fractional delays in any term order (repaired defect).",
  "C06": " Round 6: algebra operation pow, filters called twice with coefficient Streams that serve several calls (clause again), in-place limited periodic coefficient streams; three repaired defects (shared tee copy in powers, call deleting the Stream gain, one-term powers).",
  "C07": " Round 6: coefficients as Q / plain Fraction / int with weighted term counts and exponents to 7, results of value-preserving operations on the shared x changed in place, hashed (also empty) polynomials then assigned to, augmented operators, comparison with bare numbers.",
  "C08": " Round 6: typed inputs (str, bytes, bytearray, memoryview, range, array) with text / bytes pads of any length (typed), sizes to 1024 / 4096 with long gaps and inputs to 40000 items (big), pad values -0.0 / nan / unhashable, arrays changed in place.",
  "C09": " Round 6: several overlap-add / stft jobs alive at once with generated consumption schedules and numeric-type twins (together), every window kind as ola_wnd, normalisation left to the overlap-add, every kind of input signal.",
  "C10": " Round 6: reflection coefficients within 2**-44 of +-1, in-place writes into unrelated filters / polynomials around the calls (unrelated_history), one block object through many calls with results edited in between (reused_block), quiet and higher-order kcovar.",
  "C11": " Round 6: histories of earlier levinson_durbin calls on the same list object, reflection vectors of any magnitude incl. +-1 last, orders below / at / beyond the lags, enumerated extreme_float grid (leading coefficients 2^-1060..2^1000).",
  "C12": " Round 6: plain numbers (1, 0 in every spelling) as list members, numerators tied to the denominator (all-pass, mirrored), lists grown / shrunk / rebuilt by list operations after a first response, further frequency container kinds and empty containers.",
  "C13": " Rounds 6-7: one ControlStream / hub shared by a bank of designs and read out of lockstep (controls), entry points and foreign defaults, long stream-valued parameters revisiting values after more than 256 others (longstreams).",
  "C14": " Rounds 6-7: call histories with other strategies / periods between the periodic and the symmetric window, on a freshly executed private module copy (history), sizes by keyword, special alphas.",
  "C15": " Round 6: the four call forms of a StrategyDict (keywords reach the default), construction from everything dict() takes, two live dictionaries built from one another.",
  "C16": " Round 6: refused adds re-offered with the same object, equal-but-different control values (sign of zero, type, identity), two ControlStreams alive, events whose iterator defines == (repaired defect: prune by identity).",
  "C17": " Rounds 6-7: burst schedules and idle steps (honoured pause, resume, then stop inside start_stream), sample formats f h i b B with byte-exact padding (repaired defect: integer formats with a ragged tail), one container object played by two players, 0..4 unplayed recordings ended by the user at any point.",
  "C18": " Round 6: inf / nan floats, two chunk generators alive at once incl. re-entrant ones (nested, nested_grid), several WavStreams in one process incl. same-name replacement files (wav_multi, wav_multi_grid), hand-laid-out RIFF chunk orders, default size / pad after global changes.",
  "C19": " Round 6: earlier results changed in place before the call under test, size-dependent memory bursts, tables to 2**17+3 entries, lags to 400 samples, twin oscillator calls, default karplus memory under a seeded random.",
  "C20": " Round 6: clip of an in-place changed clip result, number types and hair-off values for clip / zcross, one amdf / maverage object on several signals, exact accumulate on plain Fractions and big ints, long envelopes.",
}

ADDENDA5 = {
  "C01": " Round 5: list / array operands changed in place after the expression is built (mutated, mutated_trees); user container classes through broadcast functions.",
  "C02": " Round 5: finite second operands asked for up to (never beyond) their length, in both operand orders.",
  "C03": " Round 5: returned lists written to by the caller; deep (2600-6000 stacked in-place stages; new repaired defect: stacked skip).",
  "C05": " Round 5: wide_coefficients (ints beyond 2**53, nearly cancelling exact coefficients, plain Fraction gains at signal level).",
  "C06": " Round 5: non-zero zero values with a Stream a0; (Nf/C)*(C/Dg) products.",
  "C07": " Round 5: plain numbers (every spelling of zero and one) as left operands of + - *.",
  "C08": " Round 5: late_bound (function form, deque / dict / set / Stream changed between call and first pull).",
  "C09": " Round 5: plain Fraction / big-int samples through overlap_add, reconstruction and stft (ola_plain).",
  "C11": " Round 5: levinson_float (float lags scaled by 2^s up to |s| = 700 against the exact recursion within an a-priori bound).",
  "C13": " Round 5: longcomb (delays 131-48000, alpha against e^(-delay/tau)).",
  "C15": " Round 5: deletion by key tuple, stores the dictionary refuses.",
  "C16": " Round 5: hub / Stream-subclass / nested-mixer events, object-valued (callable) control values compared by identity.",
  "C17": " Round 5: audio as deque / list / tuple / integer-index Sequence / generator; the destructor of the closed manager.",
  "C18": " Round 5: every 32-bit value of the header's rate field; unsliceable Sequence inputs for chunks.",
  "C19": " Round 5: modcount_float (range claim on floats), sinusoid with a stream-valued phase.",
}
NOT_BUILT = "check not built yet in this session (planned in DESIGN.md section 3); no claim is made until it is"

def main():
  checks = []
  for pid in ALL:
    if pid not in CHECKS:
      continue
    tech, text, note, ref = CHECKS[pid]
    checks.append({
      "property_id": pid,
      "quick_cmd": "./check %s quick" % pid,
      "thorough_cmd": "./check %s thorough" % pid,
      "evidence_file": "/verif/evidence/%s.json" % pid,
      "replay_cmd_template": "./check %s --replay {path}" % pid,
      "engine": "pbt-runner",
      "level_claimed": {"category": "exploration", "text": text + ADDENDA.get(pid, "") + ADDENDA4.get(pid, "") + ADDENDA5.get(pid, "") + ADDENDA6.get(pid, ""), "design_ref": "DESIGN.md section " + ref},
      "level_note": note,
      "technique": tech,
    })
  man = {
    "version": 1,
    "setup_cmd": "./setup.sh",
    "hooks": {
      "guard": "AUDIOLAZY_VERIF",
      "enable": "no source hooks exist: all instrumentation is external (counting iterators, fake pyaudio/_portaudio modules, replaced lazy_io.threading); ./check exports AUDIOLAZY_VERIF=1 for uniformity only",
      "baseline_off_cmd": "cd /repo && env -u AUDIOLAZY_VERIF /venv/bin/python -m pytest -ra -q -p no:cacheprovider --timeout=900 --continue-on-collection-errors",
      "source_commits": [],
      "add_only": True,
    },
    "engines": [{
      "name": "pbt-runner", "path": "/verif/vlib",
      "serves_properties": [c["property_id"] for c in checks],
      "kind_free_text": "Hypothesis (seeded from VERIF_SEED, sharded over 16 processes) + exhaustive enumeration of small finite domains; cases are plain JSON data, run_case(case) is a pure function with an explicit oracle; shrunk failing case = replay file",
    }],
    "checks": checks,
    "notes": "See DESIGN.md. ./check <ID> quick|thorough ; ./check <ID> --replay <file>. Exit 0 held / 1 VIOLATION / 2 harness error.",
    "not_applicable": [{"property_id": p, "reason": NOT_BUILT} for p in ALL if p not in CHECKS],
  }
  with open(os.path.join(ROOT, "MANIFEST.json"), "w") as f:
    json.dump(man, f, indent=1)
    f.write("\n")

if __name__ == "__main__":
  main()
