#!/usr/bin/env python3
"""tools/mkseedprompt.py <ID> <round> [n]  - prints the prompt for a fresh, isolated sub-agent that is to write
n (default 3) property-breaking changes for property <ID>.  The prompt contains the property text and one line per
change of earlier rounds (name + what it needs) so that the new ones differ; nothing about the checks in /verif."""
import glob, json, os, sys
pid, rnd = sys.argv[1], sys.argv[2]
n = int(sys.argv[3]) if len(sys.argv) > 3 else 3
prop = [json.loads(l) for l in open("/verif/properties.jsonl") if json.loads(l)["id"] == pid][0]
earlier = []
for d in sorted(glob.glob("/verif/seeded/%s-*/meta.json" % pid)):
  m = json.load(open(d))
  earlier.append("- %s: %s" % (os.path.basename(os.path.dirname(d))[len(pid) + 1:], " ".join(str(m.get("needs_to_manifest", "")).split())[:260]))
FOCUS = open("/verif/tools/SEEDER_FOCUS_r%s.md" % rnd).read() if os.path.exists("/verif/tools/SEEDER_FOCUS_r%s.md" % rnd) else ""
print("""You are helping to evaluate a verification harness for the pure-Python DSP library danilobellini/audiolazy.
Your job is to write realistic, subtle BUGS ("seeded changes") that break one stated semantic property of the library
while the library still imports and its existing test suite still passes. You are NOT told how the harness checks the
property, and you must not look for it: do not read anything under /verif. Work only in your own scratch git worktree.

## The property (id %(pid)s): %(title)s

STATEMENT: %(statement)s

QUANTIFIER (what it ranges over): %(qtext)s

ANCHORS (where the behaviour lives): files %(files)s
%(mech)s

## Your workspace

* Create your worktree:  git -C /repo worktree add --detach /tmp/seed%(rnd)s/%(pid)s/wt HEAD
  (the package is /tmp/seed%(rnd)s/%(pid)s/wt/audiolazy; run Python as
  `cd /tmp/seed%(rnd)s/%(pid)s/wt && PYTHONPATH=/tmp/seed%(rnd)s/%(pid)s/wt /venv/bin/python ...` so that YOUR copy is imported,
  and check with `python -c "import audiolazy; print(audiolazy.__file__)"`). Never edit /repo itself, never commit anywhere.
* Interpreter: /venv/bin/python (CPython 3.12). No network. numpy/scipy/sympy are NOT installed for it.
* The existing suite, which must stay green with each change applied (all 2582 pinned test ids must still pass; about ten
  other tests fail on this interpreter with or without your change - ignore those):
      /tmp/seedtools/run_suite.py /tmp/seed%(rnd)s/%(pid)s/wt        (about 2-3 minutes; exit 0 = all pinned ids pass)
* Deliver each change as a directory /tmp/seeded-out%(rnd)s/%(pid)s/<short-kebab-name>/ containing
    patch.diff   `git -C <wt> diff` of exactly that ONE change against HEAD (must apply with `git apply` to a clean HEAD)
    demo.py      a small stand-alone program (no pytest) that exits 0 on the unchanged code and exits 1 (printing what is
                 wrong) with the change applied; it is run as `cd <wt> && PYTHONPATH=<wt> /venv/bin/python demo.py`. It
                 must show a violation of the PROPERTY AS STATED (quote the sentence it contradicts in a comment), on an
                 input inside the quantifier - not merely "behaviour differs".
    meta.json    {"property": "%(pid)s", "summary": "...what was changed and why each site looks fine alone...",
                  "needs_to_manifest": "...the specific input / history / interleaving needed...",
                  "why_tests_pass": "...", "files": ["audiolazy/..."]}
  After writing a change: reset the worktree (`git -C <wt> checkout -- .`) before starting the next one, so that every
  patch is independent and relative to HEAD. Verify each one yourself: demo exits 0 on clean HEAD, patch applies, demo
  exits 1 with it, run_suite exits 0 with it.
* When finished remove your worktree: git -C /repo worktree remove --force /tmp/seed%(rnd)s/%(pid)s/wt

## What kind of change is wanted (%(n)d changes, each of a different kind and at a different site if possible)

Changes that ordinary use would expose at once are worthless here. Each change must need something SPECIFIC to manifest:
a particular interleaving, a fault at a particular point, a multi-step sequence of operations on one object, an unusual
but legal input (inside the quantifier above), a value threshold, or two cooperating sites that each look fine alone.
It should look like something a maintainer could plausibly write (an "optimisation", a "clean-up", a fast path, a cache,
a refactoring, a compatibility tweak), not sabotage. It must contradict the property statement itself - read the
statement sentence by sentence and make sure the failing input is covered by it; do not rely on behaviour the statement
does not promise.

%(focus)s

Earlier rounds already produced the changes below for this property (name: what it needs). Do NOT repeat their site +
mechanism + trigger; find something genuinely different:
%(earlier)s

## Final reply

List the directories you delivered, one line each (name - site - trigger), and anything you tried and dropped.""" % dict(
  pid=pid, title=prop["title"], statement=prop["statement"], qtext=prop["quantifier"]["text"], rnd=rnd, n=n,
  files=", ".join(prop["anchors"]["files"]),
  mech="\n".join("  - %s (%s)" % (m["name"], m["where"]) for m in prop["anchors"]["mechanism"]),
  focus=FOCUS, earlier="\n".join(earlier)))
